(** C20: the Japanese tax report.  Main lemmas (assembled from JpOps / JpSheet / JpYears / JpSummary /
    JpNames); Properties/C20.v only restates them.

    Everything below is about the report the model produces WITH the structural facts of the
    source as the translator reads them ([gen_jp_years_sorted], [gen_jp_prev_existing_year]); the
    two [code_*] lemmas are where a source without the repair stops the development from compiling. *)
From Coq Require Import List ZArith Bool Lia Permutation Sorted ZifyBool.
From RP2V Require Import Base.Prelude Base.Time Base.Dec Base.Sorting Base.Assoc Model.Types Model.Generated Model.Txn
  Model.Pipeline Model.Computed Model.Grid Model.ReportInput Model.JpReport
  Proofs.AssocProofs Proofs.SortingProofs Proofs.JpOps Proofs.JpSheet Proofs.JpYears Proofs.JpSummary Proofs.JpNames.
Import ListNotations.
Open Scope Z_scope.

(** the per-asset loop handles the years in ascending order, and hands the year just handled to the next iteration *)
Lemma code_years_sorted : gen_jp_years_sorted = true.
Proof. reflexivity. Qed.
Lemma code_prev_existing : gen_jp_prev_existing_year = true.
Proof. reflexivity. Qed.
(** the yen value of a transfer's lost amount is kept whenever that amount is > 0 (finding F14 repaired) *)
Lemma code_intra_yen_guard : gen_jp_intra_yen_guard_on_crypto = true.
Proof. reflexivity. Qed.

(** ---------- small list facts *)
Lemma NoDup_map_inj_in {A B} (f : A -> B) (l : list A) :
  (forall x y, In x l -> In y l -> f x = f y -> x = y) -> NoDup l -> NoDup (map f l).
Proof.
  intros Hinj Hn. induction Hn as [|x l Hx Hl IH]; cbn [map]; constructor.
  - rewrite in_map_iff. intros [y [E Hy]]. assert (y = x) by (apply Hinj; [right; exact Hy|left; reflexivity|exact E]). subst. tauto.
  - apply IH. intros a b Ha Hb. apply Hinj; right; assumption.
Qed.

Lemma NoDup_map_eq {A B} (f : A -> B) (l : list A) x y : NoDup (map f l) -> In x l -> In y l -> f x = f y -> x = y.
Proof.
  induction l as [|a l IH]; cbn [map]; intros Hn Hx Hy E; [contradiction|].
  inversion Hn as [|? ? Ha Hl]; subst. destruct Hx as [->|Hx], Hy as [->|Hy]; auto.
  - exfalso. apply Ha. rewrite E. apply in_map. exact Hy.
  - exfalso. apply Ha. rewrite <- E. apply in_map. exact Hx.
Qed.

Lemma filter_filter_andb {A} (p q : A -> bool) l : filter p (filter q l) = filter (fun x => q x && p x) l.
Proof. induction l as [|x l IH]; cbn [filter]; [reflexivity|]. destruct (q x); cbn [filter andb]; [destruct (p x)|]; rewrite IH; reflexivity. Qed.

Lemma filter_map_comm {A B} (f : A -> B) (p : B -> bool) l : filter p (map f l) = map f (filter (fun x => p (f x)) l).
Proof. induction l as [|x l IH]; cbn [filter map]; [reflexivity|]. destruct (p (f x)); cbn [map]; rewrite IH; reflexivity. Qed.

Lemma sorted_lt_split (l : list Z) : forall pre x post, StronglySorted Z.lt l -> l = pre ++ x :: post ->
  (forall y, In y pre -> y < x) /\ (forall y, In y post -> x < y).
Proof.
  induction l as [|a l IH]; intros pre x post S E; [destruct pre; discriminate|].
  inversion S as [|? ? Sl Fa]; subst. rewrite Forall_forall in Fa.
  destruct pre as [|b pre]; cbn [app] in E; inversion E; subst.
  - split; [intros y []|]. exact Fa.
  - destruct (IH pre x post Sl eq_refl) as [H1 H2]. split; [|exact H2].
    intros y [<-|Hy]; [apply Fa; apply in_or_app; right; left; reflexivity|apply H1; exact Hy].
Qed.

Section Jp.
Variable lang : Z.
Variable yg : bool.
Variable exs : list str.

Notation AE := (asset_emissions lang yg exs gen_jp_years_sorted gen_jp_prev_existing_year).
Notation ridx := (em_row_index lang yg exs).
Notation sheet := (asset_sheet lang yg exs).

(** ---------- one emission (sheet) per year of the asset that has a transaction, ascending *)
Lemma AE_years a txs : map em_year (AE a txs) = map fst (ordered_groups true txs).
Proof. rewrite code_years_sorted. unfold asset_emissions. apply year_loop_years. Qed.

Lemma AE_years_sorted a txs : StronglySorted Z.lt (map em_year (AE a txs)).
Proof. rewrite AE_years. apply ordered_groups_sorted. Qed.

Lemma AE_year_iff a txs y : In y (map em_year (AE a txs)) <-> exists t, In t txs /\ tx_year t = y.
Proof. rewrite AE_years. apply ordered_groups_keys. Qed.

Lemma sorted_lt_nodup (l : list Z) : StronglySorted Z.lt l -> NoDup l.
Proof.
  induction 1 as [|x l S IH F]; constructor; [|exact IH].
  rewrite Forall_forall in F. intros H. specialize (F x H). lia.
Qed.

Lemma AE_years_nodup a txs : NoDup (map em_year (AE a txs)).
Proof. apply sorted_lt_nodup, AE_years_sorted. Qed.

Lemma AE_in a txs e : In e (AE a txs) ->
  em_asset e = a /\ em_txs e = sort_by t_us (filter (yfilter (em_year e)) txs).
Proof.
  unfold asset_emissions. intros H. apply year_loop_in in H. destruct H as [Ha [l [Hin E]]]. split; [exact Ha|].
  apply ordered_groups_in in Hin. destruct Hin as [-> _]. exact E.
Qed.

Lemma AE_unique a txs e e' : In e (AE a txs) -> In e' (AE a txs) -> em_year e = em_year e' -> e = e'.
Proof. apply NoDup_map_eq, AE_years_nodup. Qed.

(** ---------- the transaction rows of a sheet *)
Lemma em_rows_kept e : em_rows lang yg exs e = map (process lang yg exs) (em_kept lang yg exs e).
Proof. unfold em_rows, em_kept, has_row. apply filter_map_comm. Qed.

Lemma AE_rows a txs e : In e (AE a txs) ->
  let y := em_year e in
  let kept := em_kept lang yg exs e in
  Permutation kept (filter (fun t => (tx_year t =? y) && has_row lang yg exs t) txs) /\
  StronglySorted (fun t1 t2 => t_us t1 <= t_us t2) kept /\
  (NoDup txs -> NoDup kept) /\
  ridx e = gen_jp_first_row + Z.of_nat (length kept) /\
  forall k t, nth_error kept k = Some t ->
    forall w, In w (row_cells (gen_jp_first_row + Z.of_nat k) (process lang yg exs t)) ->
      cell_at (sw_writes (sheet e)) (gen_jp_first_row + Z.of_nat k) (cw_col w) = cw_val w.
Proof.
  intros He. cbv zeta. destruct (AE_in _ _ _ He) as [_ Et].
  assert (P : Permutation (em_kept lang yg exs e) (filter (fun t => (tx_year t =? em_year e) && has_row lang yg exs t) txs)).
  { unfold em_kept. rewrite Et. rewrite <- filter_filter_andb. apply filter_perm, sort_by_perm. }
  split; [exact P|]. split; [|split; [|split]].
  - unfold em_kept. rewrite Et. apply (sorted_filter t_us), sort_by_sorted.
  - intros Hn. eapply Permutation_NoDup; [apply Permutation_sym, P|]. apply NoDup_filter, Hn.
  - unfold em_row_index. rewrite em_rows_kept, map_length. reflexivity.
  - intros k t Hk w Hw. rewrite <- (row_cells_row _ _ _ Hw) at 1.
    apply (asset_row_cell lang yg exs e k (process lang yg exs t)); [|exact Hw].
    rewrite em_rows_kept. apply map_nth_error. exact Hk.
Qed.

(** ---------- the chain of opening balances *)
Ltac in_tac := cbn [In]; repeat (first [left; reflexivity | right]).

Lemma jp_opening_entries :
  In (8, 4, JOpen [JLit [61; 39]; JPrevName; JLit [39; 46; 73]; JPrev 0]) gen_jp_asset_tail /\
  In (9, 4, JOpen [JLit [61; 39]; JPrevName; JLit [39; 46; 73]; JPrev 1]) gen_jp_asset_tail.
Proof. split; unfold gen_jp_asset_tail; in_tac. Qed.

(** the cells a summary line points at, and the closing-balance cells, are formulas the sheet writes *)
Definition result_cells : list (Z * Z) := [(9, 6); (8, 8); (9, 8); (17, 8)].
Lemma jp_result_entries : forall dr col, In (dr, col) result_cells -> exists ps, In (dr, col, JF ps) gen_jp_asset_tail.
Proof.
  intros dr col H. cbn [result_cells In] in H.
  destruct H as [H|[H|[H|[H|[]]]]]; inversion H; subst; eexists; unfold gen_jp_asset_tail; in_tac.
Qed.

Lemma em_return_row e : em_return lang yg exs e = ridx e + 8 + 1.
Proof. unfold em_return. change gen_jp_return_delta with 9. lia. Qed.

Lemma em_return_pos e : em_return lang yg exs e <> 0.
Proof. rewrite em_return_row. unfold em_row_index. pose proof jp_first_row_ok. lia. Qed.

Lemma result_cell_formula e dr col : In (dr, col) result_cells ->
  exists f, cell_at (sw_writes (sheet e)) (ridx e + dr) col = PFormula f.
Proof.
  intros H. destruct (jp_result_entries dr col H) as [ps Hin].
  rewrite (asset_tail_cell lang yg exs e dr col _ Hin). cbn [tail_value]. eexists. reflexivity.
Qed.

Lemma opening_cells e :
  (em_prev_off e = 0 ->
     cell_at (sw_writes (sheet e)) (ridx e + 8) 4 = PInt 0 /\ cell_at (sw_writes (sheet e)) (ridx e + 9) 4 = PInt 0) /\
  (em_prev_off e <> 0 ->
     cell_at (sw_writes (sheet e)) (ridx e + 8) 4 = sheet_ref (tax_sheet_name lang (em_asset e) (em_prev_year e)) 73 (em_prev_off e) /\
     cell_at (sw_writes (sheet e)) (ridx e + 9) 4 = sheet_ref (tax_sheet_name lang (em_asset e) (em_prev_year e)) 73 (em_prev_off e + 1)).
Proof.
  destruct jp_opening_entries as [H8 H9].
  rewrite (asset_tail_cell lang yg exs e _ _ _ H8), (asset_tail_cell lang yg exs e _ _ _ H9). cbn [tail_value].
  split; intros H.
  - rewrite H. cbn. auto.
  - destruct (em_prev_off e =? 0) eqn:E; [lia|].
    unfold sheet_ref, render. cbn [flat_map render_piece em_ctx jc_prev_name jc_prev app]. rewrite !app_nil_r, Z.add_0_r.
    split; reflexivity.
Qed.

(** [e] opens with the closing balance of the sheet of the greatest earlier year of the same asset, or with 0 *)
Lemma opening_balance_chain a txs e : In e (AE a txs) ->
  ((forall e', In e' (AE a txs) -> em_year e <= em_year e') ->
     cell_at (sw_writes (sheet e)) (ridx e + 8) 4 = PInt 0 /\ cell_at (sw_writes (sheet e)) (ridx e + 9) 4 = PInt 0) /\
  (forall e', In e' (AE a txs) -> em_year e' < em_year e ->
     (forall e'', In e'' (AE a txs) -> em_year e'' < em_year e -> em_year e'' <= em_year e') ->
     cell_at (sw_writes (sheet e)) (ridx e + 8) 4 = sheet_ref (tax_sheet_name lang a (em_year e')) 73 (ridx e' + 8 + 1) /\
     cell_at (sw_writes (sheet e)) (ridx e + 9) 4 = sheet_ref (tax_sheet_name lang a (em_year e')) 73 (ridx e' + 9 + 1) /\
     sw_name (sheet e') = tax_sheet_name lang a (em_year e') /\
     (exists f, cell_at (sw_writes (sheet e')) (ridx e' + 8) 8 = PFormula f) /\
     (exists f, cell_at (sw_writes (sheet e')) (ridx e' + 9) 8 = PFormula f)).
Proof.
  intros He. destruct (in_split _ _ He) as [pre [post E]].
  pose proof (AE_years_sorted a txs) as S. rewrite E, map_app in S. cbn [map] in S.
  destruct (sorted_lt_split _ _ _ _ S eq_refl) as [Hpre Hpost].
  assert (C : chained lang yg exs gen_jp_prev_existing_year 0 0 (AE a txs)) by (unfold asset_emissions; apply year_loop_chained).
  pose proof (chained_split lang yg exs _ _ _ _ pre e post C E) as CS.
  destruct (opening_cells e) as [O0 O1]. destruct (AE_in _ _ _ He) as [Ha _].
  split.
  - intros Hmin. destruct (rev pre) as [|e' r] eqn:R.
    + apply O0. tauto.
    + exfalso. assert (Hin : In e' pre) by (apply in_rev; rewrite R; left; reflexivity).
      assert (em_year e' < em_year e) by (apply Hpre, in_map, Hin).
      specialize (Hmin e'). rewrite E in Hmin. specialize (Hmin (in_or_app _ _ _ (or_introl Hin))). lia.
  - intros e' He' Hlt Hmax.
    assert (Hin' : In e' pre).
    { rewrite E in He'. apply in_app_iff in He'. destruct He' as [H|[H|H]]; [exact H|subst; lia|].
      assert (em_year e < em_year e') by (apply Hpost, in_map, H). lia. }
    destruct (rev pre) as [|e1 r] eqn:R.
    { apply in_rev in Hin'. rewrite R in Hin'. contradiction. }
    assert (Hin1 : In e1 pre) by (apply in_rev; rewrite R; left; reflexivity).
    (* e1 is the last element of pre: it has the greatest year among pre *)
    assert (Hlast : pre = rev r ++ [e1]) by (rewrite <- (rev_involutive pre), R; reflexivity).
    assert (Hge : em_year e' <= em_year e1).
    { pose proof (AE_years_sorted a txs) as S2. rewrite E, Hlast, !map_app in S2. cbn [map] in S2. rewrite <- app_assoc in S2.
      cbn [app] in S2. destruct (sorted_lt_split _ _ _ _ S2 eq_refl) as [H1 _].
      rewrite Hlast in Hin'. apply in_app_iff in Hin'. destruct Hin' as [H|[->|[]]]; [|lia].
      specialize (H1 _ (in_map em_year _ _ H)). lia. }
    assert (He1 : In e1 (AE a txs)) by (rewrite E; apply in_or_app; left; exact Hin1).
    assert (em_year e1 < em_year e) by (apply Hpre, in_map, Hin1).
    assert (em_year e1 <= em_year e') by (apply Hmax; assumption).
    assert (e1 = e') by (apply (AE_unique a txs); auto; lia). subst e1.
    destruct CS as [Coff Cyear]. specialize (Cyear code_prev_existing).
    destruct O1 as [O8 O9]; [rewrite Coff; apply em_return_pos|].
    rewrite O8, O9, Coff, Cyear, Ha, em_return_row.
    replace (ridx e' + 9 + 1) with (ridx e' + 8 + 1 + 1) by lia.
    split; [reflexivity|]. split; [reflexivity|]. split.
    + cbn. destruct (AE_in _ _ _ He') as [-> _]. reflexivity.
    + split; apply result_cell_formula; cbn; auto.
Qed.

(** ---------- the summary sheets *)
Notation yof y := (fun e : emission => em_year e =? y).

Lemma jp_summary_entries :
  In (0, JAsset) gen_jp_summary_line /\
  In (3, JF [JLit [61; 39]; JName; JLit [39; 46; 71]; JRow 10]) gen_jp_summary_line /\
  In (4, JF [JLit [61; 39]; JName; JLit [39; 46; 73]; JRow 9]) gen_jp_summary_line /\
  In (5, JF [JLit [61; 39]; JName; JLit [39; 46; 73]; JRow 10]) gen_jp_summary_line /\
  In (6, JF [JLit [61; 39]; JName; JLit [39; 46; 73]; JRow 18]) gen_jp_summary_line.
Proof. repeat split; unfold gen_jp_summary_line; in_tac. Qed.

Lemma summary_years ems :
  NoDup (map fst (ss_sheets (summary_state lang yg exs ems))) /\
  forall y, In y (map fst (ss_sheets (summary_state lang yg exs ems))) <-> In y (map em_year ems).
Proof.
  split; [apply summary_keys_nodup|]. intros y. split.
  - intros H. apply in_map_iff in H. destruct H as [[y' ops] [<- Hin]]. cbn [fst].
    apply summary_sheet_of_year in Hin. destruct Hin as [Hne _].
    destruct (filter (yof y') ems) as [|x es] eqn:F; [congruence|].
    assert (Hx : In x (filter (yof y') ems)) by (rewrite F; left; reflexivity).
    apply filter_In in Hx. destruct Hx as [Hx Hy]. apply in_map_iff. exists x. split; [lia|exact Hx].
  - intros H. apply in_map_iff in H. destruct H as [e [<- He]].
    apply in_map_iff. exists (em_year e, spec_ops lang yg exs (filter (yof (em_year e)) ems)). split; [reflexivity|].
    apply summary_sheet_of_year. split; [|reflexivity].
    intros F. assert (Hin : In e (filter (yof (em_year e)) ems)) by (apply filter_In; split; [exact He|lia]).
    rewrite F in Hin. contradiction.
Qed.

(** line j of the summary of year y belongs to the j-th emission of that year (generation order = asset
    order) and points at the result cells of that emission's own sheet *)
Lemma summary_line ems y j e : nth_error (filter (yof y) ems) j = Some e ->
  exists s, In s (summary_sheets lang yg exs ems) /\ sw_name s = summary_sheet_name lang y /\
    let row := gen_jp_summary_start + Z.of_nat j in
    let nm := tax_sheet_name lang (em_asset e) (em_year e) in
    em_year e = y /\ sw_name (sheet e) = nm /\
    cell_at (sw_writes s) row 0 = PStr (em_asset e) /\
    cell_at (sw_writes s) row 3 = sheet_ref nm 71 (ridx e + 9 + 1) /\
    cell_at (sw_writes s) row 4 = sheet_ref nm 73 (ridx e + 8 + 1) /\
    cell_at (sw_writes s) row 5 = sheet_ref nm 73 (ridx e + 9 + 1) /\
    cell_at (sw_writes s) row 6 = sheet_ref nm 73 (ridx e + 17 + 1) /\
    (forall dr col, In (dr, col) result_cells -> exists f, cell_at (sw_writes (sheet e)) (ridx e + dr) col = PFormula f).
Proof.
  intros Hj. set (es := filter (yof y) ems) in *.
  assert (Hne : es <> []) by (intro F; rewrite F in Hj; destruct j; discriminate).
  assert (Hy : em_year e = y).
  { apply nth_error_In in Hj. apply filter_In in Hj. lia. }
  exists (sheet_of (summary_sheet_name lang y) gen_jp_tmpl_summary_rows gen_jp_tmpl_summary_cols (spec_ops lang yg exs es)).
  split.
  - unfold summary_sheets. apply in_map_iff. exists (y, spec_ops lang yg exs es). split; [reflexivity|].
    apply summary_sheet_of_year. auto.
  - split; [reflexivity|]. cbv zeta. split; [exact Hy|]. split; [reflexivity|].
    assert (G : forall col v, In (col, v) gen_jp_summary_line ->
              cell_at (sw_writes (sheet_of (summary_sheet_name lang y) gen_jp_tmpl_summary_rows gen_jp_tmpl_summary_cols (spec_ops lang yg exs es)))
                      (gen_jp_summary_start + Z.of_nat j) col
              = tail_value lang yg exs e (em_ctx lang yg exs e (gen_jp_summary_start + Z.of_nat j)) v).
    { intros col v Hin. unfold sheet_of, spec_ops. cbn [sw_writes]. rewrite resolve_ops_app.
      set (w := cw (gen_jp_summary_start + Z.of_nat j) col (tail_value lang yg exs e (em_ctx lang yg exs e (gen_jp_summary_start + Z.of_nat j)) v)).
      change (gen_jp_summary_start + Z.of_nat j) with (cw_row w) at 1. change col with (cw_col w) at 1.
      change (tail_value lang yg exs e (em_ctx lang yg exs e (gen_jp_summary_start + Z.of_nat j)) v) with (cw_val w).
      apply (sum_line_cell lang yg exs es gen_jp_summary_start j e); [exact Hj|].
      unfold line_cells. apply in_map_iff. exists (col, v). split; [reflexivity|exact Hin]. }
    destruct jp_summary_entries as [E0 [E3 [E4 [E5 E6]]]].
    rewrite (G _ _ E0), (G _ _ E3), (G _ _ E4), (G _ _ E5), (G _ _ E6). cbn [tail_value].
    unfold sheet_ref, render. cbn [flat_map render_piece em_ctx jc_name jc_row app]. rewrite !app_nil_r.
    replace (ridx e + 9 + 1) with (ridx e + 10) by lia. replace (ridx e + 8 + 1) with (ridx e + 9) by lia.
    replace (ridx e + 17 + 1) with (ridx e + 18) by lia.
    repeat (split; [reflexivity|]). intros dr col H. apply result_cell_formula. exact H.
Qed.

(** ---------- Generator.generate *)
Lemma computed_all_fst i l0 : forall l, computed_all i l0 = Ok l ->
  map fst l = l0 /\ forall a c, In (a, c) l -> computed_of i a = Ok c.
Proof.
  induction l0 as [|a t IH]; intros l H; cbn [computed_all] in H.
  - inversion H; subst. split; [reflexivity|]. intros ? ? [].
  - destruct (computed_of i a) as [c|] eqn:Ec; [|discriminate].
    destruct (computed_all i t) as [r|] eqn:Er; [|discriminate]. inversion H; subst.
    destruct (IH r eq_refl) as [H1 H2]. split; [cbn [map fst]; rewrite H1; reflexivity|].
    intros a' c' [Heq|Hin]; [inversion Heq; subst; exact Ec|apply H2; exact Hin].
Qed.
End Jp.

Lemma jp_report_shape lang yg ys pe i r : jp_report lang yg ys pe i = Ok r ->
  exists l, computed_all i (rp_assets i) = Ok l /\ map fst l = rp_assets i /\
    (rp_from i = MIN_DAY \/ rp_to i = MAX_DAY) /\
    let ems := all_emissions lang yg ys pe (rp_exchanges i) l in
    r = summary_sheets lang yg (rp_exchanges i) ems ++ map (asset_sheet lang yg (rp_exchanges i)) ems.
Proof.
  unfold jp_report. destruct (computed_all i (rp_assets i)) as [l|] eqn:E; [|discriminate].
  destruct (negb (rp_from i =? MIN_DAY) && negb (rp_to i =? MAX_DAY)) eqn:W; [discriminate|].
  destruct (existsb _ _); [discriminate|]. intros H. inversion H; subst. exists l.
  split; [reflexivity|]. split; [apply (computed_all_fst i _ _ E)|]. split; [lia|]. reflexivity.
Qed.

(** every sheet of the report stays inside its capacity *)
Lemma report_sheets_ok lang yg exs ems s : In s (report_of lang yg exs ems) -> sheet_ok s = true.
Proof.
  unfold report_of. intros H. apply in_app_iff in H. destruct H as [H|H].
  - eapply summary_sheets_ok; eauto.
  - apply in_map_iff in H. destruct H as [e [<- _]]. apply asset_sheet_ok.
Qed.

(** sheet names: one per (asset, year), pairwise distinct *)
Lemma all_emissions_names_nodup lang yg exs (l : list (rasset * computed)) :
  NoDup (map (fun ac => ra_name (fst ac)) l) ->
  (forall ac t, In ac l -> In t (chain_of (snd ac)) -> 1 <= tx_year t <= 9999) ->
  NoDup (map (fun e => sw_name (asset_sheet lang yg exs e)) (all_emissions lang yg gen_jp_years_sorted gen_jp_prev_existing_year exs l)).
Proof.
  induction l as [|[a c] l IH]; intros Hn Hr; cbn [all_emissions flat_map map]; [constructor|].
  fold (all_emissions lang yg gen_jp_years_sorted gen_jp_prev_existing_year exs l).
  inversion Hn as [|? ? Ha Hl]; subst. cbn [fst snd] in *. rewrite map_app.
  assert (Hyr : forall e, In e (asset_emissions lang yg exs gen_jp_years_sorted gen_jp_prev_existing_year (ra_name a) (chain_of c)) ->
                          1 <= em_year e <= 9999).
  { intros e He. assert (Hy : In (em_year e) (map em_year (asset_emissions lang yg exs gen_jp_years_sorted gen_jp_prev_existing_year (ra_name a) (chain_of c))))
      by (apply in_map; exact He).
    apply AE_year_iff in Hy. destruct Hy as [t [Ht <-]]. apply (Hr (a, c)); [left; reflexivity|exact Ht]. }
  apply nodup_app.
  - apply NoDup_map_inj_in.
    + intros x y Hx Hy E. cbn in E. destruct (AE_in _ _ _ _ _ _ Hx) as [Ax _]. destruct (AE_in _ _ _ _ _ _ Hy) as [Ay _].
      apply tax_sheet_name_inj in E; [|apply Hyr; assumption|apply Hyr; assumption].
      apply (AE_unique lang yg exs (ra_name a) (chain_of c)); tauto.
    + eapply NoDup_map_inv. apply AE_years_nodup.
  - apply IH; [exact Hl|]. intros ac t Hac. apply Hr. right. exact Hac.
  - intros nm H1 H2. apply in_map_iff in H1. destruct H1 as [e1 [<- He1]]. apply in_map_iff in H2. destruct H2 as [e2 [E He2]].
    unfold all_emissions in He2. apply in_flat_map in He2. destruct He2 as [[a2 c2] [Hac He2]]. cbn [fst snd] in He2.
    destruct (AE_in _ _ _ _ _ _ He1) as [A1 _]. destruct (AE_in _ _ _ _ _ _ He2) as [A2 _].
    cbn in E. apply tax_sheet_name_inj in E.
    + destruct E as [E _]. apply Ha. rewrite <- A1, <- E, A2. apply (in_map (fun ac => ra_name (fst ac)) _ (a2, c2)). exact Hac.
    + assert (Hy : In (em_year e2) (map em_year (asset_emissions lang yg exs gen_jp_years_sorted gen_jp_prev_existing_year (ra_name a2) (chain_of c2))))
        by (apply in_map; exact He2).
      apply AE_year_iff in Hy. destruct Hy as [t [Ht <-]]. apply (Hr (a2, c2)); [right; exact Hac|exact Ht].
    + apply Hyr. exact He1.
Qed.

(** ---------- what a row shows, per class of transaction (by definition of the writer's model; columns A..I) *)
Lemma row_cells_in lang yg exs row a :
  row_cells row (process lang yg exs (TIn a)) =
  let yen := dmul (of_grid (i_crypto_in a)) (of_grid (i_spot a)) in
  [cw row 0 (PInt (month_of (i_ts a))); cw row 1 (PInt (dom_of (i_ts a))); cw row 2 (PStr (exch_name exs (i_exch a)));
   cw row 3 (PStr (type_text (i_type a))); cw row 4 (PNum (of_grid (i_crypto_in a))); cw row 5 (PNum yen)]
  ++ (if ttype_in (i_type a) gen_jp_income_types then [cw row 6 (PNum dzero); cw row 7 (PNum yen)] else [])
  ++ [cw row 8 (PNum (fee_in_yen (i_crypto_fee a) (i_spot a) (i_fiat_fee a)))].
Proof. unfold row_cells, process, process_in. cbn [jr_pur_amt jr_sale_amt jr_pur_yen jr_sale_yen jr_donated jr_month jr_day jr_client jr_type jr_fee]. destruct (ttype_in (i_type a) gen_jp_income_types); reflexivity. Qed.

Lemma row_cells_out lang yg exs row a :
  row_cells row (process lang yg exs (TOut a)) =
  let yen := dmul (of_grid (o_crypto_out_no_fee a)) (of_grid (o_spot a)) in
  [cw row 0 (PInt (month_of (o_ts a))); cw row 1 (PInt (dom_of (o_ts a))); cw row 2 (PStr (exch_name exs (o_exch a)));
   cw row 3 (PStr (type_text (o_type a))); cw row 6 (PNum (of_grid (o_crypto_out_with_fee a)));
   cw row 7 (if ttype_eqb (o_type a) DONATE then donation_text yen else PNum yen);
   cw row 8 (PNum (fee_in_yen (o_crypto_fee a) (o_spot a) (o_fiat_fee a)))].
Proof. unfold row_cells, process, process_out. cbn [jr_pur_amt jr_sale_amt jr_pur_yen jr_sale_yen jr_donated jr_month jr_day jr_client jr_type jr_fee]. destruct (ttype_eqb (o_type a) DONATE); reflexivity. Qed.

(** a transfer has a row exactly when something was lost on the way; the row shows the lost amount as sold *)
Lemma has_row_intra lang yg exs a : has_row lang yg exs (TIntra a) = dgtb (of_grid (x_crypto_sent a - x_crypto_received a)) dzero.
Proof. unfold has_row, process, process_intra, jr_has_row. cbn [jr_pur_amt jr_sale_amt]. destruct (dgtb _ dzero); reflexivity. Qed.
Lemma has_row_in lang yg exs a : has_row lang yg exs (TIn a) = true.
Proof. reflexivity. Qed.
Lemma has_row_out lang yg exs a : has_row lang yg exs (TOut a) = true.
Proof. reflexivity. Qed.

Lemma row_cells_intra lang yg exs row a : has_row lang yg exs (TIntra a) = true ->
  row_cells row (process lang yg exs (TIntra a)) =
  let fee := of_grid (x_crypto_sent a - x_crypto_received a) in
  let yen := dmul fee (of_grid (x_spot a)) in
  [cw row 0 (PInt (month_of (x_ts a))); cw row 1 (PInt (dom_of (x_ts a))); cw row 2 (PStr (gen_jp_transfer lang));
   cw row 3 (PStr (type_text FEE)); cw row 6 (PNum fee);
   cw row 7 (if (if yg then true else dgtb yen dzero) then PNum yen else PEmpty);
   cw row 8 (PNum dzero)].
Proof.
  rewrite has_row_intra. intros H. unfold row_cells, process, process_intra.
  cbn [jr_pur_amt jr_sale_amt jr_pur_yen jr_sale_yen jr_donated jr_month jr_day jr_client jr_type jr_fee]. rewrite H.
  destruct yg; [reflexivity|]. destruct (dgtb (dmul _ _) dzero); reflexivity.
Qed.

(** with the guard of the current source the row of a transfer always carries its yen value *)
Lemma row_cells_intra_code lang exs row a : has_row lang gen_jp_intra_yen_guard_on_crypto exs (TIntra a) = true ->
  row_cells row (process lang gen_jp_intra_yen_guard_on_crypto exs (TIntra a)) =
  let fee := of_grid (x_crypto_sent a - x_crypto_received a) in
  let yen := dmul fee (of_grid (x_spot a)) in
  [cw row 0 (PInt (month_of (x_ts a))); cw row 1 (PInt (dom_of (x_ts a))); cw row 2 (PStr (gen_jp_transfer lang));
   cw row 3 (PStr (type_text FEE)); cw row 6 (PNum fee); cw row 7 (PNum yen); cw row 8 (PNum dzero)].
Proof. rewrite code_intra_yen_guard. intros H. rewrite (row_cells_intra lang true exs row a H). reflexivity. Qed.

(** ---------- no row hands None to the spreadsheet library (the crash of finding F14 cannot happen) *)
Lemma row_never_raises lang exs t : row_raises (process lang true exs t) = false.
Proof.
  destruct t as [a|a|a]; unfold process, process_in, process_out, process_intra, row_raises;
    cbn [jr_pur_amt jr_sale_amt jr_pur_yen jr_sale_yen jr_donated].
  - destruct (ttype_in (i_type a) gen_jp_income_types); reflexivity.
  - reflexivity.
  - destruct (dgtb (of_grid (x_crypto_sent a - x_crypto_received a)) dzero); reflexivity.
Qed.

Lemma existsb_all_false {A} (f : A -> bool) l : (forall x, In x l -> f x = false) -> existsb f l = false.
Proof. induction l as [|x l IH]; intros H; cbn [existsb]; [reflexivity|]. rewrite (H x (or_introl eq_refl)), IH; [reflexivity|]. intros y Hy. apply H. right. exact Hy. Qed.

Lemma em_never_raises lang exs e : em_raises lang true exs e = false.
Proof.
  unfold em_raises, em_rows. apply existsb_all_false. intros r Hr. apply filter_In in Hr. destruct Hr as [Hr _].
  apply in_map_iff in Hr. destruct Hr as [t [<- _]]. apply row_never_raises.
Qed.

(** Generator.generate runs to completion on every input the engine accepts, unless both -f and -t are given *)
Lemma jp_report_total lang ys pe i l :
  computed_all i (rp_assets i) = Ok l -> (rp_from i = MIN_DAY \/ rp_to i = MAX_DAY) ->
  exists r, jp_report lang gen_jp_intra_yen_guard_on_crypto ys pe i = Ok r.
Proof.
  intros Hc Hw. rewrite code_intra_yen_guard. unfold jp_report. rewrite Hc.
  assert (W : negb (rp_from i =? MIN_DAY) && negb (rp_to i =? MAX_DAY) = false) by lia. rewrite W.
  rewrite existsb_all_false by (intros e _; apply em_never_raises). eexists. reflexivity.
Qed.
