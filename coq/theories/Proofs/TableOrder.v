(** Property C17, tables reordered within a sheet (vocabulary: Model/TableOrderSpec.v).
    1. the matcher under a renaming of the row ids of the LOTS that keeps their order (and the dummy id 0): same control
       flow, the fractions name the renamed lots -- for the matcher as the code has it, no well-formedness needed;
    2. the pipeline (time-sorted sets -> taxable events -> fractions) under a renaming of ALL row ids;
    3. the parser's result for two sheets holding the same tables in different orders, with different numbers of blank rows:
       equal up to row ids, the artificial ids coincide;
    4. composition. *)
From Coq Require Import List ZArith Bool Lia Permutation Sorted ZifyBool.
From RP2V Require Import Base.Prelude Base.Time Base.Dec Base.Sorting Model.Types Model.Generated Model.Txn
  Model.Matcher Model.MatchSpec Model.Pipeline Model.Parser Model.Render Model.TableOrderSpec.
From RP2V Require Import Proofs.SortingProofs Proofs.C03Proofs Proofs.PipelineWf Proofs.C09Proofs Proofs.C17Proofs
  Proofs.ParserLookup Proofs.ParserRows Proofs.ParserSheet Proofs.ParserSpec.
Import ListNotations.
Open Scope Z_scope.

Lemma rn_res_map_res {A B} (f : A -> B) r : map_res f r = rn_res f r.
Proof. destruct r; reflexivity. Qed.

(** * 1. the matcher under an order-preserving renaming of the lots' row ids *)

Lemma run_matcher_unfold ar lots sched evs :
  run_matcher ar lots sched evs =
  if (length lots =? 0)%nat then Err EInternal else
  match next_event_and_lot ar lots (Matcher.init_state lots sched) evs None None 0 0 with
  | Err x => Err x
  | Ok Done => Ok []
  | Ok (Next s evs' e l ea la) => loop ar lots (run_fuel lots evs) s evs' e l ea la []
  end.
Proof. unfold run_matcher. destruct lots; reflexivity. Qed.

Definition rn_lot (rho : Z -> Z) (f : fraction) : fraction :=
  {| f_ev := f_ev f; f_lot := option_map rho (f_lot f); f_amt := f_amt f |}.

Section LotRenaming.
Variable rho : Z -> Z.
Variable ar : bool.
Variable lots : list intx.
Hypothesis rho0 : rho 0 = 0.
Hypothesis rho_mono : mono_on rho (0 :: map i_row lots).
Notation lots' := (map (rn_in rho) lots).
Notation S0 := (0 :: map i_row lots).

Lemma rn_dummy : rn_in rho dummy_lot = dummy_lot.
Proof. unfold rn_in, dummy_lot. cbn. rewrite rho0. reflexivity. Qed.
Lemma lotn_rn i : lotn lots' i = rn_in rho (lotn lots i).
Proof. unfold lotn. rewrite <- rn_dummy at 1. apply map_nth. Qed.
Lemma lot_row_in i : In (i_row (lotn lots i)) S0.
Proof.
  unfold lotn. destruct (Nat.lt_ge_cases i (length lots)) as [H|H].
  - right. apply in_map, nth_In, H.
  - left. rewrite nth_overflow by exact H. reflexivity.
Qed.
Lemma rho_cmp x y : In x S0 -> In y S0 -> (x < y -> rho x < rho y) /\ (x = y -> rho x = rho y) /\ (y < x -> rho y < rho x).
Proof. intros Hx Hy. split; [apply rho_mono; assumption|]. split; [intros ->; reflexivity|apply rho_mono; assumption]. Qed.

Lemma hkey_rn m i j : key_ltb (hkey lots' m i) (hkey lots' m j) = key_ltb (hkey lots m i) (hkey lots m j).
Proof.
  unfold hkey. rewrite !lotn_rn.
  pose proof (rho_cmp _ _ (lot_row_in i) (lot_row_in j)) as (H1 & H2 & H3).
  destruct m; unfold meth_sort_key, key_ltb, rn_in; cbn [i_row i_ts i_spot]; lia.
Qed.

Lemma avail_rn p i : avail lots' p i = avail lots p i.
Proof. unfold avail. rewrite lotn_rn. reflexivity. Qed.

Lemma min_idx_rn m : forall h b, min_idx lots' m h b = min_idx lots m h b.
Proof. induction h as [|i h IH]; intros b; cbn [min_idx]; [reflexivity|]. rewrite hkey_rn, !IH. reflexivity. Qed.
Lemma pop_min_rn m h : pop_min lots' m h = pop_min lots m h.
Proof. unfold pop_min. destruct h; [reflexivity|]. rewrite min_idx_rn. reflexivity. Qed.

Lemma seek_up_rn : forall fuel p i to_ b, seek_up lots' fuel p i to_ b = seek_up lots fuel p i to_ b.
Proof.
  induction fuel as [|f IH]; intros p i to_ b; cbn [seek_up]; [reflexivity|]. rewrite avail_rn.
  destruct (Nat.ltb to_ i); [reflexivity|]. destruct (avail lots p i); [reflexivity|apply IH].
Qed.
Lemma seek_down_rn : forall fuel p i from_ b, seek_down lots' fuel p i from_ b = seek_down lots fuel p i from_ b.
Proof.
  induction fuel as [|f IH]; intros p i from_ b; cbn [seek_down]; [reflexivity|]. rewrite avail_rn.
  destruct (Nat.ltb i from_); [reflexivity|]. destruct (avail lots p i); [reflexivity|]. destruct i; [reflexivity|apply IH].
Qed.
Lemma seek_feature_rn : forall fuel m p h, seek_feature lots' fuel m p h = seek_feature lots fuel m p h.
Proof.
  induction fuel as [|f IH]; intros m p h; cbn [seek_feature]; [reflexivity|]. rewrite pop_min_rn.
  destruct (pop_min lots m h) as [[i h']|]; [|reflexivity]. rewrite avail_rn. destruct (avail lots p i); [reflexivity|apply IH].
Qed.

Definition rn_best (b : option (nat * Z * Z)) : option (nat * Z * Z) :=
  match b with Some (i, t, r) => Some (i, t, rho r) | None => None end.
Lemma to_index_aux_rn t : forall l i best,
  (forall x, In x l -> In (i_row x) S0) -> (forall i0 t0 r0, best = Some (i0, t0, r0) -> In r0 S0) ->
  to_index_aux t (map (rn_in rho) l) i (rn_best best) = rn_best (to_index_aux t l i best).
Proof.
  induction l as [|x l IH]; intros i best Hl Hb; [reflexivity|]. cbn [map to_index_aux]. cbv zeta.
  change (i_ts (rn_in rho x)) with (i_ts x). change (i_row (rn_in rho x)) with (rho (i_row x)).
  assert (Hx : In (i_row x) S0) by (apply Hl; left; reflexivity).
  assert (Hl' : forall y, In y l -> In (i_row y) S0) by (intros y Hy; apply Hl; right; exact Hy).
  destruct (utc_us (i_ts x) <=? t).
  - destruct best as [[[bi bt] br]|]; cbn [rn_best].
    + pose proof (rho_cmp br (i_row x) (Hb _ _ _ eq_refl) Hx) as (H1 & H2 & H3).
      assert (E : ((bt <? utc_us (i_ts x)) || (bt =? utc_us (i_ts x)) && (rho br <? rho (i_row x))) =
                  ((bt <? utc_us (i_ts x)) || (bt =? utc_us (i_ts x)) && (br <? i_row x))) by lia.
      rewrite E. destruct ((bt <? utc_us (i_ts x)) || (bt =? utc_us (i_ts x)) && (br <? i_row x)).
      * apply (IH (S i) (Some (i, utc_us (i_ts x), i_row x)) Hl'). intros ? ? ? [= <- <- <-]. exact Hx.
      * apply (IH (S i) (Some (bi, bt, br)) Hl'). exact Hb.
    + apply (IH (S i) (Some (i, utc_us (i_ts x), i_row x)) Hl'). intros ? ? ? [= <- <- <-]. exact Hx.
  - apply IH; assumption.
Qed.
Lemma to_index_rn t : to_index lots' t = to_index lots t.
Proof.
  unfold to_index.
  assert (H : to_index_aux t lots' 0 None = rn_best (to_index_aux t lots 0 None)).
  { apply (to_index_aux_rn t lots 0%nat None).
    - intros x Hx. right. apply in_map, Hx.
    - intros ? ? ? H. discriminate H. }
  rewrite H. destruct (to_index_aux t lots 0 None) as [[[i t0] r]|]; reflexivity.
Qed.

Lemma lot_for_event_rn s e a b : lot_for_event ar lots' s e a b = lot_for_event ar lots s e a b.
Proof.
  unfold lot_for_event. rewrite to_index_rn, map_length. destruct (to_index lots (e_us e)) as [ti|]; [|reflexivity].
  destruct (find_cand (cands s) (e_year e) 0 None) as [[k y]|]; [|reflexivity]. cbv zeta.
  destruct (meth_kind (c_meth (nth k (cands s) dummy_cand))) as [older|].
  - rewrite seek_up_rn, seek_down_rn. reflexivity.
  - rewrite seek_feature_rn. reflexivity.
Qed.

Lemma next_event_rn s evs cur cl ea la : next_event ar lots' s evs cur cl ea la = next_event ar lots s evs cur cl ea la.
Proof.
  unfold next_event. destruct evs as [|ne rest]; [reflexivity|]. cbv zeta. destruct cur as [ce|]; [|reflexivity].
  destruct (e_us ce <? e_us ne); [|reflexivity]. rewrite lot_for_event_rn. reflexivity.
Qed.
Lemma opt_lot_eq_rn a b : opt_lot_eq lots' a b = opt_lot_eq lots a b.
Proof.
  destruct a as [x|], b as [y|]; cbn [opt_lot_eq]; try reflexivity. rewrite !lotn_rn. cbn [rn_in i_row].
  pose proof (rho_cmp _ _ (lot_row_in x) (lot_row_in y)) as (H1 & H2 & H3). lia.
Qed.
Lemma next_event_and_lot_rn s evs cur cl ea la :
  next_event_and_lot ar lots' s evs cur cl ea la = next_event_and_lot ar lots s evs cur cl ea la.
Proof.
  unfold next_event_and_lot. rewrite next_event_rn.
  destruct (next_event ar lots s evs cur cl ea la) as [[|s1 rest ne nl nea nla]|]; try reflexivity.
  rewrite opt_lot_eq_rn, lot_for_event_rn. reflexivity.
Qed.
Lemma mk_frac_rn e l x : mk_frac lots' e l x = rn_lot rho (mk_frac lots e l x).
Proof. unfold mk_frac, rn_lot. cbn. destruct l as [i|]; cbn; [rewrite lotn_rn|]; reflexivity. Qed.

Lemma loop_rn : forall f s evs e l ea la out,
  loop ar lots' f s evs e l ea la (map (rn_lot rho) out) = rn_res (map (rn_lot rho)) (loop ar lots f s evs e l ea la out).
Proof.
  induction f as [|f IH]; intros s evs e l ea la out; [reflexivity|].
  cbn [loop]. cbv zeta beta. destruct l as [li|]; [|reflexivity].
  destruct ((ea <? 0) || (la <? 0)); [reflexivity|].
  assert (Hcont : forall (r : result nxt) out',
    match r with
    | Err x => Err x
    | Ok Done => Ok (rev (map (rn_lot rho) out'))
    | Ok (Next s' evs' e' l' ea' la') => loop ar lots' f s' evs' e' l' ea' la' (map (rn_lot rho) out')
    end = rn_res (map (rn_lot rho)) match r with
                                    | Err x => Err x
                                    | Ok Done => Ok (rev out')
                                    | Ok (Next s' evs' e' l' ea' la') => loop ar lots f s' evs' e' l' ea' la' out'
                                    end).
  { intros [[|s' evs' e' l' ea' la']|x] out'; cbn [rn_res]; [rewrite map_rev; reflexivity|apply IH|reflexivity]. }
  destruct (e_earn e).
  - destruct (ea <=? 0); [reflexivity|].
    rewrite mk_frac_rn, next_event_rn. apply (Hcont _ (mk_frac lots e None ea :: out)).
  - destruct (ea =? la).
    + destruct (ea <=? 0); [reflexivity|].
      rewrite mk_frac_rn, next_event_and_lot_rn. apply (Hcont _ (mk_frac lots e (Some li) ea :: out)).
    + destruct (ea <? la).
      * destruct (ea <=? 0); [reflexivity|].
        rewrite mk_frac_rn, next_event_rn. apply (Hcont _ (mk_frac lots e (Some li) ea :: out)).
      * destruct (la <=? 0); [reflexivity|].
        rewrite lot_for_event_rn. destruct (lot_for_event ar lots s e ea la) as [[[[s' i] ea'] la']|]; [|reflexivity].
        rewrite mk_frac_rn. apply (IH s' evs e (Some i) ea' la' (mk_frac lots e (Some li) la :: out)).
Qed.

(** renaming the row ids of the lots, keeping their order, renames the lots in the fractions and changes nothing else *)
Theorem matcher_lot_renaming : forall sched evs,
  run_matcher ar lots' sched evs = rn_res (map (rn_lot rho)) (run_matcher ar lots sched evs).
Proof.
  intros sched evs. rewrite !run_matcher_unfold, map_length. destruct (length lots =? 0)%nat; [reflexivity|].
  assert (HI : Matcher.init_state lots' sched = Matcher.init_state lots sched) by (unfold Matcher.init_state; rewrite map_map; reflexivity).
  rewrite HI, next_event_and_lot_rn.
  destruct (next_event_and_lot ar lots (Matcher.init_state lots sched) evs None None 0 0) as [[|s evs' e l ea la]|]; try reflexivity.
  assert (HF : run_fuel lots' evs = run_fuel lots evs) by (unfold run_fuel; rewrite map_length; reflexivity).
  rewrite HF. change (@nil fraction) with (map (rn_lot rho) []) at 1. apply loop_rn.
Qed.
End LotRenaming.

(** * 2. the pipeline under a renaming of all row ids *)

Lemma has_dup_map_inj (rho : Z -> Z) l : inj_on rho l -> has_dup (map rho l) = has_dup l.
Proof.
  intros Hinj. destruct (has_dup l) eqn:E.
  - apply not_false_is_true. intros F. apply C17Proofs.has_dup_false_NoDup in F. apply NoDup_map_inv in F.
    apply C17Proofs.has_dup_false_NoDup in F. congruence.
  - apply C17Proofs.has_dup_false_NoDup. apply NoDup_map_inj_on; [exact Hinj|]. apply C17Proofs.has_dup_false_NoDup; exact E.
Qed.

Lemma rn_frac_split rho f : rn_frac rho f = ren_frac rho (rn_lot rho f).
Proof. reflexivity. Qed.

Section PipelineRenaming.
Variable rho : Z -> Z.
Variable t : txs.
Hypothesis rho0 : rho 0 = 0.
Hypothesis rho_mono : mono_on rho (0 :: map i_row (t_ins t)).
Hypothesis rho_inj : inj_on rho (map t_row (taxable_unsorted t)).

Lemma taxable_unsorted_rn : taxable_unsorted (rn_txs rho t) = map (rn_txn rho) (taxable_unsorted t).
Proof.
  unfold taxable_unsorted, rn_txs. cbn [t_ins t_outs t_intras].
  rewrite (filter_map_comm (rn_in rho) in_is_taxable in_is_taxable) by reflexivity.
  rewrite (filter_map_comm (rn_out rho) out_is_taxable out_is_taxable) by reflexivity.
  rewrite (filter_map_comm (rn_intra rho) intra_is_taxable intra_is_taxable) by reflexivity.
  rewrite !map_app, !map_map. reflexivity.
Qed.

Theorem taxable_events_rn : taxable_events (rn_txs rho t) = rn_res (map (rn_txn rho)) (taxable_events t).
Proof.
  unfold taxable_events. rewrite taxable_unsorted_rn.
  assert (Hrows : map t_row (map (rn_txn rho) (taxable_unsorted t)) = map rho (map t_row (taxable_unsorted t))).
  { rewrite !map_map. apply map_ext. intros [a|a|a]; reflexivity. }
  rewrite Hrows, (has_dup_map_inj rho _ rho_inj). destruct (has_dup (map t_row (taxable_unsorted t))); [reflexivity|].
  cbn [rn_res]. rewrite sort_by_map. rewrite (sort_by_ext (fun b0 => t_us (rn_txn rho b0)) t_us) by (intros [a|a|a]; reflexivity).
  reflexivity.
Qed.

Theorem fractions_rn : forall b sched,
  fractions_of b sched (rn_txs rho t) = rn_res (map (rn_frac rho)) (fractions_of b sched t).
Proof.
  intros b sched. unfold fractions_of. rewrite taxable_events_rn. destruct (taxable_events t) as [evs|]; [|reflexivity]. cbn [rn_res].
  assert (Hev : map event_of (map (rn_txn rho) evs) = map (ren_ev rho) (map event_of evs)).
  { rewrite !map_map. apply map_ext. intros [a|a|a]; reflexivity. }
  rewrite Hev. cbn [t_ins rn_txs]. rewrite matcher_event_renaming, rn_res_map_res.
  rewrite (matcher_lot_renaming rho b (t_ins t) rho0 rho_mono).
  destruct (run_matcher b (t_ins t) sched (map event_of evs)) as [fs|]; [|reflexivity]. cbn [rn_res]. rewrite map_map. reflexivity.
Qed.
End PipelineRenaming.

(** * 3. the parser's result for the same tables in another order *)

(** ** 3.1 the expected transactions as one fold over the numbered typed rows of the sheet *)
Fixpoint number_from (n : Z) (l : list srow) : list (Z * srow) :=
  match l with [] => [] | x :: t => (n, x) :: number_from (n + 1) t end.
Fixpoint numbered (rowno : Z) (blocks : list block) : list (Z * srow) :=
  match blocks with
  | [] => []
  | b :: t => number_from (rowno + Z.of_nat (length (b_gap b)) + 2) (map fst (b_rows b)) ++ numbered (rowno + block_len b) t
  end.
Fixpoint expect_list (cfg : pcfg) (a : acc) (l : list (Z * srow)) : result acc :=
  match l with
  | [] => Ok a
  | nr :: t => match expect_row cfg a (fst nr) (snd nr) with Err e => Err e | Ok a' => expect_list cfg a' t end
  end.

Lemma expect_list_app cfg : forall l1 l2 a,
  expect_list cfg a (l1 ++ l2) = match expect_list cfg a l1 with Err e => Err e | Ok a' => expect_list cfg a' l2 end.
Proof.
  induction l1 as [|nr l1 IH]; intros l2 a; cbn [app expect_list]; [reflexivity|].
  destruct (expect_row cfg a (fst nr) (snd nr)); [apply IH|reflexivity].
Qed.
Lemma expect_rows_list cfg : forall rows a n, expect_rows cfg a n rows = expect_list cfg a (number_from n (map fst rows)).
Proof.
  induction rows as [|r rows IH]; intros a n; cbn [expect_rows map number_from expect_list fst snd]; [reflexivity|].
  destruct (expect_row cfg a n (fst r)); [apply IH|reflexivity].
Qed.
Lemma expect_blocks_list cfg : forall blocks a n, expect_blocks cfg a n blocks = expect_list cfg a (numbered n blocks).
Proof.
  induction blocks as [|b blocks IH]; intros a n; cbn [expect_blocks numbered]; [reflexivity|].
  rewrite expect_list_app, expect_rows_list.
  destruct (expect_list cfg a (number_from (n + Z.of_nat (length (b_gap b)) + 2) (map fst (b_rows b)))); [apply IH|reflexivity].
Qed.

(** ** 3.2 the fold splits into three independent folds, one per table type *)
Definition agree_in (a b : acc) : Prop := a_ins a = a_ins b /\ a_art a = a_art b /\ a_counter a = a_counter b.
Definition agree_out (a b : acc) : Prop := a_outs a = a_outs b.
Definition agree_intra (a b : acc) : Prop := a_intras a = a_intras b.
Definition is_tab (T : table) (nr : Z * srow) : bool := table_eqb (srow_tab (snd nr)) T.
Definition both {A} (R : A -> A -> Prop) (r1 r2 : result A) : Prop :=
  match r1, r2 with Ok x, Ok y => R x y | Err _, Err _ => True | _, _ => False end.

Lemma step_in cfg a b n s : agree_in a b ->
  both (fun a1 b1 => agree_in a1 b1 /\ agree_out a1 a /\ agree_intra a1 a /\ agree_out b1 b /\ agree_intra b1 b)
       (expect_row cfg a n (SIn s)) (expect_row cfg b n (SIn s)).
Proof.
  intros (H1 & H2 & H3). cbn [expect_row]. destruct (raw_of_in cfg n s) as [raw|]; [|exact I].
  destruct (mk_in raw) as [tx|]; cbn [bind]; [|exact I].
  destruct (0 <? i_crypto_fee tx).
  - destruct (split_in tx) as [tx'|]; cbn [bind]; [|exact I]. rewrite H3.
    destruct (fee_out tx (a_counter b - 1)) as [o|]; cbn [bind both]; [|exact I].
    unfold agree_in, agree_out, agree_intra. cbn. rewrite H1, H2. repeat split; reflexivity.
  - cbn [both]. unfold agree_in, agree_out, agree_intra. cbn. rewrite H1. repeat split; assumption.
Qed.
Lemma step_out cfg a b n s : agree_out a b ->
  both (fun a1 b1 => agree_out a1 b1 /\ agree_in a1 a /\ agree_intra a1 a /\ agree_in b1 b /\ agree_intra b1 b)
       (expect_row cfg a n (SOut s)) (expect_row cfg b n (SOut s)).
Proof.
  intros H1. cbn [expect_row]. destruct (raw_of_out cfg n s) as [raw|]; [|exact I].
  destruct (mk_out raw) as [tx|]; cbn [bind both]; [|exact I].
  unfold agree_in, agree_out, agree_intra in *. cbn. rewrite H1. repeat split; reflexivity.
Qed.
Lemma step_intra cfg a b n s : agree_intra a b ->
  both (fun a1 b1 => agree_intra a1 b1 /\ agree_in a1 a /\ agree_out a1 a /\ agree_in b1 b /\ agree_out b1 b)
       (expect_row cfg a n (SIntra s)) (expect_row cfg b n (SIntra s)).
Proof.
  intros H1. cbn [expect_row]. destruct (raw_of_intra cfg n s) as [raw|]; [|exact I].
  destruct (mk_intra raw) as [tx|]; cbn [bind both]; [|exact I].
  unfold agree_in, agree_out, agree_intra in *. cbn. rewrite H1. repeat split; reflexivity.
Qed.

(** the entries a row adds to the table row id -> (unique_id, notes) depend, like its transactions, on the counter only *)
Lemma step_meta cfg a b n r a1 b1 : match r with SIn _ => a_counter a = a_counter b | _ => True end ->
  expect_row cfg a n r = Ok a1 -> expect_row cfg b n r = Ok b1 ->
  exists new, a_meta a1 = a_meta a ++ new /\ a_meta b1 = a_meta b ++ new.
Proof.
  intros Hc E1 E2. destruct r as [s|s|s]; cbn [expect_row] in E1, E2.
  - destruct (raw_of_in cfg n s) as [raw|]; [|discriminate E1]. destruct (mk_in raw) as [tx|]; cbn [bind] in E1, E2; [|discriminate E1].
    destruct (0 <? i_crypto_fee tx).
    + destruct (split_in tx) as [tx'|]; cbn [bind] in E1, E2; [|discriminate E1]. rewrite Hc in E1.
      destruct (fee_out tx (a_counter b - 1)) as [o|]; cbn [bind] in E1, E2; [|discriminate E1].
      injection E1 as <-. injection E2 as <-. cbn [a_meta]. eexists. split; reflexivity.
    + injection E1 as <-. injection E2 as <-. cbn [a_meta]. eexists. split; reflexivity.
  - destruct (raw_of_out cfg n s) as [raw|]; [|discriminate E1]. destruct (mk_out raw) as [tx|]; cbn [bind] in E1, E2; [|discriminate E1].
    injection E1 as <-. injection E2 as <-. cbn [a_meta]. eexists. split; reflexivity.
  - destruct (raw_of_intra cfg n s) as [raw|]; [|discriminate E1]. destruct (mk_intra raw) as [tx|]; cbn [bind] in E1, E2; [|discriminate E1].
    injection E1 as <-. injection E2 as <-. cbn [a_meta]. eexists. split; reflexivity.
Qed.

Definition meta_split (a ai ao ax : acc) : Prop := Permutation (a_meta a) (a_meta ai ++ a_meta ao ++ a_meta ax).

Lemma decomp cfg : forall l a ai ao ax, agree_in a ai -> agree_out a ao -> agree_intra a ax -> meta_split a ai ao ax ->
  match expect_list cfg a l with
  | Ok a' => exists ai' ao' ax',
      expect_list cfg ai (filter (is_tab TabIn) l) = Ok ai' /\ expect_list cfg ao (filter (is_tab TabOut) l) = Ok ao' /\
      expect_list cfg ax (filter (is_tab TabIntra) l) = Ok ax' /\ agree_in a' ai' /\ agree_out a' ao' /\ agree_intra a' ax' /\
      meta_split a' ai' ao' ax'
  | Err _ => (exists e, expect_list cfg ai (filter (is_tab TabIn) l) = Err e) \/
             (exists e, expect_list cfg ao (filter (is_tab TabOut) l) = Err e) \/
             (exists e, expect_list cfg ax (filter (is_tab TabIntra) l) = Err e)
  end.
Proof.
  induction l as [|[n r] l IH]; intros a ai ao ax Hi Ho Hx HM.
  - cbn. exists ai, ao, ax. do 3 (split; [reflexivity|]). split; [exact Hi|]. split; [exact Ho|]. split; [exact Hx|exact HM].
  - unfold agree_in, agree_out, agree_intra in Hi, Ho, Hx.
    destruct r as [s|s|s]; cbn [filter is_tab snd fst srow_tab table_eqb expect_list].
    + pose proof (step_in cfg a ai n s Hi) as HS.
      destruct (expect_row cfg a n (SIn s)) as [a1|e1] eqn:EA, (expect_row cfg ai n (SIn s)) as [ai1|e2] eqn:EB; cbn [both] in HS; try contradiction.
      * destruct HS as (K1 & K2 & K3 & _ & _). unfold agree_out, agree_intra in K2, K3.
        destruct (step_meta cfg a ai n (SIn s) a1 ai1 (proj2 (proj2 Hi)) EA EB) as (new & M1 & M2).
        apply IH; [exact K1|unfold agree_out; congruence|unfold agree_intra; congruence|].
        unfold meta_split in *. rewrite M1, M2. eapply perm_trans; [apply Permutation_app_tail; exact HM|].
        rewrite <- !app_assoc. apply Permutation_app_head. rewrite app_assoc. apply Permutation_app_comm.
      * left. exists e2. reflexivity.
    + pose proof (step_out cfg a ao n s Ho) as HS.
      destruct (expect_row cfg a n (SOut s)) as [a1|e1] eqn:EA, (expect_row cfg ao n (SOut s)) as [ao1|e2] eqn:EB; cbn [both] in HS; try contradiction.
      * destruct HS as (K1 & (K2 & K3 & K4) & K5 & _ & _). unfold agree_intra in K5.
        destruct (step_meta cfg a ao n (SOut s) a1 ao1 I EA EB) as (new & M1 & M2).
        apply IH; [unfold agree_in; repeat split; destruct Hi as (? & ? & ?); congruence|exact K1|unfold agree_intra; congruence|].
        unfold meta_split in *. rewrite M1, M2. eapply perm_trans; [apply Permutation_app_tail; exact HM|].
        rewrite <- !app_assoc. do 2 apply Permutation_app_head. apply Permutation_app_comm.
      * right. left. exists e2. reflexivity.
    + pose proof (step_intra cfg a ax n s Hx) as HS.
      destruct (expect_row cfg a n (SIntra s)) as [a1|e1] eqn:EA, (expect_row cfg ax n (SIntra s)) as [ax1|e2] eqn:EB; cbn [both] in HS; try contradiction.
      * destruct HS as (K1 & (K2 & K3 & K4) & K5 & _ & _). unfold agree_out in K5.
        destruct (step_meta cfg a ax n (SIntra s) a1 ax1 I EA EB) as (new & M1 & M2).
        apply IH; [unfold agree_in; repeat split; destruct Hi as (? & ? & ?); congruence|unfold agree_out; congruence|exact K1|].
        unfold meta_split in *. rewrite M1, M2. eapply perm_trans; [apply Permutation_app_tail; exact HM|].
        rewrite <- !app_assoc. apply Permutation_refl.
      * right. right. exists e2. reflexivity.
Qed.

(** ** 3.3 the row number of a data row enters its transaction as the row id and nowhere else *)
Ltac crunch_eq :=
  repeat (match goal with
          | |- context [if ?b then _ else _] => destruct b
          | |- context [match ?x with _ => _ end] => destruct x
          end; cbv beta iota); try reflexivity.

Definition with_ri_row (n : Z) (r : raw_in) : raw_in :=
  {| ri_row := n; ri_ts := ri_ts r; ri_exch := ri_exch r; ri_holder := ri_holder r; ri_type := ri_type r; ri_spot := ri_spot r;
     ri_crypto_in := ri_crypto_in r; ri_crypto_fee := ri_crypto_fee r; ri_fiat_in_no_fee := ri_fiat_in_no_fee r;
     ri_fiat_in_with_fee := ri_fiat_in_with_fee r; ri_fiat_fee := ri_fiat_fee r |}.
Definition with_ro_row (n : Z) (r : raw_out) : raw_out :=
  {| ro_row := n; ro_ts := ro_ts r; ro_exch := ro_exch r; ro_holder := ro_holder r; ro_type := ro_type r; ro_spot := ro_spot r;
     ro_crypto_out_no_fee := ro_crypto_out_no_fee r; ro_crypto_fee := ro_crypto_fee r;
     ro_crypto_out_with_fee := ro_crypto_out_with_fee r; ro_fiat_out_no_fee := ro_fiat_out_no_fee r; ro_fiat_fee := ro_fiat_fee r |}.
Definition with_rx_row (n : Z) (r : raw_intra) : raw_intra :=
  {| rx_row := n; rx_ts := rx_ts r; rx_from_exch := rx_from_exch r; rx_from_holder := rx_from_holder r; rx_to_exch := rx_to_exch r;
     rx_to_holder := rx_to_holder r; rx_spot := rx_spot r; rx_crypto_sent := rx_crypto_sent r; rx_crypto_received := rx_crypto_received r |}.

Lemma raw_of_in_row cfg n n' s : raw_of_in cfg n' s = option_map (with_ri_row n') (raw_of_in cfg n s).
Proof. unfold raw_of_in. cbv zeta. crunch_eq. Qed.
Lemma raw_of_out_row cfg n n' s : raw_of_out cfg n' s = option_map (with_ro_row n') (raw_of_out cfg n s).
Proof. unfold raw_of_out. cbv zeta. crunch_eq. Qed.
Lemma raw_of_intra_row cfg n n' s : raw_of_intra cfg n' s = option_map (with_rx_row n') (raw_of_intra cfg n s).
Proof. unfold raw_of_intra. crunch_eq. Qed.

Lemma mk_in_row n r : mk_in (with_ri_row n r) = rn_res (rn_in (fun _ => n)) (mk_in r).
Proof.
  unfold mk_in, with_ri_row. cbv zeta.
  cbn [ri_row ri_ts ri_exch ri_holder ri_type ri_spot ri_crypto_in ri_crypto_fee ri_fiat_in_no_fee ri_fiat_in_with_fee ri_fiat_fee].
  crunch_eq.
Qed.
Lemma mk_out_row n r : mk_out (with_ro_row n r) = rn_res (rn_out (fun _ => n)) (mk_out r).
Proof.
  unfold mk_out, with_ro_row. cbv zeta.
  cbn [ro_row ro_ts ro_exch ro_holder ro_type ro_spot ro_crypto_out_no_fee ro_crypto_fee ro_crypto_out_with_fee ro_fiat_out_no_fee ro_fiat_fee].
  crunch_eq.
Qed.
Lemma mk_intra_row n r : mk_intra (with_rx_row n r) = rn_res (rn_intra (fun _ => n)) (mk_intra r).
Proof.
  unfold mk_intra, with_rx_row. cbv zeta.
  cbn [rx_row rx_ts rx_from_exch rx_from_holder rx_to_exch rx_to_holder rx_spot rx_crypto_sent rx_crypto_received].
  crunch_eq.
Qed.
Lemma split_in_row f a : split_in (rn_in f a) = rn_res (rn_in f) (split_in a).
Proof.
  unfold split_in, rn_in.
  cbn [i_row i_ts i_exch i_holder i_type i_spot i_crypto_in i_crypto_fee i_fiat_in_no_fee i_fiat_in_with_fee i_fiat_fee].
  crunch_eq.
Qed.
Lemma fee_out_row_indep f a id : fee_out (rn_in f a) id = fee_out a id.
Proof. reflexivity. Qed.

Notation fg_in := (rn_in (fun _ => 0)).
Notation fg_out := (rn_out (fun _ => 0)).
Notation fg_intra := (rn_intra (fun _ => 0)).
(** equal after forgetting the row ids; same artificial disposals, same counter *)
Definition sim (a b : acc) : Prop :=
  map fg_in (a_ins a) = map fg_in (a_ins b) /\ map fg_out (a_outs a) = map fg_out (a_outs b) /\
  map fg_intra (a_intras a) = map fg_intra (a_intras b) /\ a_art a = a_art b /\ a_counter a = a_counter b.

Lemma renumber_row cfg a b n n' r : sim a b -> both sim (expect_row cfg a n r) (expect_row cfg b n' r).
Proof.
  intros (H1 & H2 & H3 & H4 & H5). destruct r as [s|s|s]; cbn [expect_row].
  - rewrite (raw_of_in_row cfg n n' s). destruct (raw_of_in cfg n s) as [raw|]; cbn [option_map]; [|exact I].
    rewrite mk_in_row. destruct (mk_in raw) as [tx|]; cbn [rn_res bind]; [|exact I].
    change (i_crypto_fee (rn_in (fun _ => n') tx)) with (i_crypto_fee tx). destruct (0 <? i_crypto_fee tx).
    + rewrite split_in_row. destruct (split_in tx) as [tx'|]; cbn [rn_res bind]; [|exact I].
      rewrite fee_out_row_indep, H5.
      destruct (fee_out tx (a_counter b - 1)) as [o|]; cbn [bind both]; [|exact I].
      unfold sim. cbn [a_ins a_outs a_intras a_art a_counter]. rewrite !map_app, H1, H4. repeat split; assumption.
    + cbn [both]. unfold sim. cbn [a_ins a_outs a_intras a_art a_counter]. rewrite !map_app, H1. repeat split; assumption.
  - rewrite (raw_of_out_row cfg n n' s). destruct (raw_of_out cfg n s) as [raw|]; cbn [option_map]; [|exact I].
    rewrite mk_out_row. destruct (mk_out raw) as [tx|]; cbn [rn_res bind both]; [|exact I].
    unfold sim. cbn [a_ins a_outs a_intras a_art a_counter]. rewrite !map_app, H2. repeat split; assumption.
  - rewrite (raw_of_intra_row cfg n n' s). destruct (raw_of_intra cfg n s) as [raw|]; cbn [option_map]; [|exact I].
    rewrite mk_intra_row. destruct (mk_intra raw) as [tx|]; cbn [rn_res bind both]; [|exact I].
    unfold sim. cbn [a_ins a_outs a_intras a_art a_counter]. rewrite !map_app, H3. repeat split; assumption.
Qed.

Lemma renumber_list cfg : forall l l' a b, map snd l = map snd l' -> sim a b -> both sim (expect_list cfg a l) (expect_list cfg b l').
Proof.
  induction l as [|[n r] l IH]; intros [|[n' r'] l'] a b Hm Hs; cbn [map snd] in Hm; try discriminate Hm.
  - exact Hs.
  - injection Hm as -> Hm. cbn [expect_list fst snd]. pose proof (renumber_row cfg a b n n' r' Hs) as HR.
    destruct (expect_row cfg a n r') as [a1|], (expect_row cfg b n' r') as [b1|]; cbn [both] in HR |- *; try contradiction; [|exact I].
    apply IH; assumption.
Qed.

Lemma sim_refl a : sim a a.
Proof. unfold sim. auto. Qed.

(** ... and its number enters the table row id -> (unique_id, notes) as the key of the row's entry *)
Lemma renumber_row_meta cfg rho a b n n' r a1 b1 : (forall x, x <= 0 -> rho x = x) -> rho n = n' ->
  a_counter a = a_counter b -> a_counter a <= 1 -> expect_row cfg a n r = Ok a1 -> expect_row cfg b n' r = Ok b1 ->
  a_counter a1 = a_counter b1 /\ a_counter a1 <= 1 /\
  exists new, a_meta a1 = a_meta a ++ new /\ a_meta b1 = a_meta b ++ map (rn_meta rho) new.
Proof.
  intros Hfix Hn Hc Hle E1 E2. destruct r as [s|s|s]; cbn [expect_row] in E1, E2.
  - rewrite (raw_of_in_row cfg n n' s) in E2. destruct (raw_of_in cfg n s) as [raw|]; cbn [option_map] in E2; [|discriminate E1].
    rewrite mk_in_row in E2. destruct (mk_in raw) as [tx|]; cbn [rn_res bind] in E1, E2; [|discriminate E1].
    change (i_crypto_fee (rn_in (fun _ => n') tx)) with (i_crypto_fee tx) in E2. destruct (0 <? i_crypto_fee tx).
    + rewrite split_in_row in E2. destruct (split_in tx) as [tx'|]; cbn [rn_res bind] in E1, E2; [|discriminate E1].
      rewrite fee_out_row_indep in E2. rewrite Hc in E1.
      destruct (fee_out tx (a_counter b - 1)) as [o|]; cbn [bind] in E1, E2; [|discriminate E1].
      injection E1 as <-. injection E2 as <-. cbn [a_counter a_meta]. split; [reflexivity|]. split; [lia|].
      eexists. split; [reflexivity|]. cbn [map]. unfold rn_meta. cbn [fst snd]. rewrite Hn, (Hfix (a_counter b - 1)) by lia. reflexivity.
    + injection E1 as <-. injection E2 as <-. cbn [a_counter a_meta]. split; [exact Hc|]. split; [exact Hle|].
      eexists. split; [reflexivity|]. cbn [map]. unfold rn_meta. cbn [fst snd]. rewrite Hn. reflexivity.
  - rewrite (raw_of_out_row cfg n n' s) in E2. destruct (raw_of_out cfg n s) as [raw|]; cbn [option_map] in E2; [|discriminate E1].
    rewrite mk_out_row in E2. destruct (mk_out raw) as [tx|]; cbn [rn_res bind] in E1, E2; [|discriminate E1].
    injection E1 as <-. injection E2 as <-. cbn [a_counter a_meta]. split; [exact Hc|]. split; [exact Hle|].
    eexists. split; [reflexivity|]. cbn [map]. unfold rn_meta. cbn [fst snd]. rewrite Hn. reflexivity.
  - rewrite (raw_of_intra_row cfg n n' s) in E2. destruct (raw_of_intra cfg n s) as [raw|]; cbn [option_map] in E2; [|discriminate E1].
    rewrite mk_intra_row in E2. destruct (mk_intra raw) as [tx|]; cbn [rn_res bind] in E1, E2; [|discriminate E1].
    injection E1 as <-. injection E2 as <-. cbn [a_counter a_meta]. split; [exact Hc|]. split; [exact Hle|].
    eexists. split; [reflexivity|]. cbn [map]. unfold rn_meta. cbn [fst snd]. rewrite Hn. reflexivity.
Qed.

Lemma renumber_list_meta cfg rho : (forall x, x <= 0 -> rho x = x) -> forall l l' a b a1 b1,
  map snd l = map snd l' -> map rho (map fst l) = map fst l' ->
  a_counter a = a_counter b -> a_counter a <= 1 -> a_meta b = map (rn_meta rho) (a_meta a) ->
  expect_list cfg a l = Ok a1 -> expect_list cfg b l' = Ok b1 -> a_meta b1 = map (rn_meta rho) (a_meta a1).
Proof.
  intros Hfix. induction l as [|[n r] l IH]; intros [|[n' r'] l'] a b a1 b1 Hs Hr Hc Hle HM E1 E2; cbn [map fst snd] in Hs, Hr; try discriminate Hs.
  - cbn in E1, E2. injection E1 as <-. injection E2 as <-. exact HM.
  - injection Hs as -> Hs. injection Hr as Hn Hr. cbn [expect_list fst snd] in E1, E2.
    destruct (expect_row cfg a n r') as [a'|] eqn:EA; [|discriminate E1]. destruct (expect_row cfg b n' r') as [b'|] eqn:EB; [|discriminate E2].
    destruct (renumber_row_meta cfg rho a b n n' r' a' b' Hfix Hn Hc Hle EA EB) as (Hc' & Hle' & new & M1 & M2).
    apply (IH l' a' b' a1 b1 Hs Hr Hc' Hle'); [|exact E1|exact E2]. rewrite M1, M2, HM, map_app. reflexivity.
Qed.

(** two row lists holding, per table type, the same typed rows in the same order *)
Lemma reorder_lists cfg c L1 L2 a1 :
  (forall T, map snd (filter (is_tab T) L1) = map snd (filter (is_tab T) L2)) ->
  expect_list cfg (acc0 c) L1 = Ok a1 ->
  exists a2, expect_list cfg (acc0 c) L2 = Ok a2 /\ sim a1 a2 /\
    forall rho, (forall x, x <= 0 -> rho x = x) -> c <= 1 ->
      (forall T, map rho (map fst (filter (is_tab T) L1)) = map fst (filter (is_tab T) L2)) ->
      Permutation (a_meta a2) (map (rn_meta rho) (a_meta a1)).
Proof.
  intros HT E1. set (z := acc0 c) in *.
  assert (Zi : agree_in z z) by (unfold agree_in; auto). assert (Zo : agree_out z z) by reflexivity. assert (Zx : agree_intra z z) by reflexivity.
  assert (Zm : meta_split z z z z) by (unfold meta_split; cbn; constructor).
  pose proof (decomp cfg L1 z z z z Zi Zo Zx Zm) as D1. rewrite E1 in D1.
  destruct D1 as (ai1 & ao1 & ax1 & Fi1 & Fo1 & Fx1 & (Ai1 & Ai1' & Ai1'') & Ao1 & Ax1 & M1).
  pose proof (renumber_list cfg _ _ z z (HT TabIn) (sim_refl z)) as Ri. rewrite Fi1 in Ri.
  pose proof (renumber_list cfg _ _ z z (HT TabOut) (sim_refl z)) as Ro. rewrite Fo1 in Ro.
  pose proof (renumber_list cfg _ _ z z (HT TabIntra) (sim_refl z)) as Rx. rewrite Fx1 in Rx.
  destruct (expect_list cfg z (filter (is_tab TabIn) L2)) as [ai2|] eqn:Fi2; cbn [both] in Ri; [|contradiction].
  destruct (expect_list cfg z (filter (is_tab TabOut) L2)) as [ao2|] eqn:Fo2; cbn [both] in Ro; [|contradiction].
  destruct (expect_list cfg z (filter (is_tab TabIntra) L2)) as [ax2|] eqn:Fx2; cbn [both] in Rx; [|contradiction].
  pose proof (decomp cfg L2 z z z z Zi Zo Zx Zm) as D2. rewrite Fi2, Fo2, Fx2 in D2.
  destruct (expect_list cfg z L2) as [a2|e].
  - exists a2. split; [reflexivity|].
    destruct D2 as (ai2' & ao2' & ax2' & [= <-] & [= <-] & [= <-] & (Ai2 & Ai2' & Ai2'') & Ao2 & Ax2 & M2).
    split.
    + destruct Ri as (Si & _ & _ & Sa & Sc). destruct Ro as (_ & So & _). destruct Rx as (_ & _ & Sx & _).
      unfold agree_out, agree_intra in *. unfold sim. rewrite Ai1, Ai2, Ao1, Ao2, Ax1, Ax2, Ai1', Ai2', Ai1'', Ai2''. auto.
    + intros rho Hfix Hc HR. unfold meta_split in M1, M2.
      assert (Z0 : a_meta z = map (rn_meta rho) (a_meta z)) by reflexivity.
      pose proof (renumber_list_meta cfg rho Hfix _ _ z z ai1 ai2 (HT TabIn) (HR TabIn) eq_refl Hc Z0 Fi1 Fi2) as Qi.
      pose proof (renumber_list_meta cfg rho Hfix _ _ z z ao1 ao2 (HT TabOut) (HR TabOut) eq_refl Hc Z0 Fo1 Fo2) as Qo.
      pose proof (renumber_list_meta cfg rho Hfix _ _ z z ax1 ax2 (HT TabIntra) (HR TabIntra) eq_refl Hc Z0 Fx1 Fx2) as Qx.
      eapply perm_trans; [exact M2|]. rewrite Qi, Qo, Qx, <- !map_app. apply Permutation_map, Permutation_sym. exact M1.
  - exfalso. destruct D2 as [(e' & H)|[(e' & H)|(e' & H)]]; discriminate H.
Qed.

(** ** 3.4 the numbered rows of a sheet, per table type, are the rows of that table *)
Definition rows_of (T : table) (cs : list (table * list srow)) : list srow :=
  flat_map (fun c => if table_eqb (fst c) T then snd c else []) cs.

Lemma table_eqb_true a b : table_eqb a b = true -> a = b.
Proof. destruct a, b; simpl; intros H; try reflexivity; discriminate H. Qed.
Lemma table_eqb_refl a : table_eqb a a = true.
Proof. destruct a; reflexivity. Qed.

Lemma snd_number_from : forall l n, map snd (number_from n l) = l.
Proof. induction l as [|x l IH]; intros n; cbn; [reflexivity|]. rewrite IH. reflexivity. Qed.
Lemma filter_number_from T T' : forall l n, (forall r, In r l -> srow_tab r = T) ->
  filter (is_tab T') (number_from n l) = if table_eqb T T' then number_from n l else [].
Proof.
  induction l as [|x l IH]; intros n H; cbn [number_from filter]; [destruct (table_eqb T T'); reflexivity|].
  unfold is_tab at 1. cbn [snd]. rewrite (H x (or_introl eq_refl)), IH by (intros r Hr; apply H; right; exact Hr).
  destruct (table_eqb T T'); reflexivity.
Qed.

Lemma numbered_rows_of cfg asset T : forall bl n, wf_blocks cfg asset n bl ->
  map snd (filter (is_tab T) (numbered n bl)) = rows_of T (map block_content bl).
Proof.
  induction bl as [|b bl IH]; intros n W; [reflexivity|]. cbn [wf_blocks] in W. destruct W as [Wb W].
  cbn [numbered map rows_of flat_map block_content fst snd]. rewrite filter_app, map_app. f_equal; [|exact (IH _ W)].
  rewrite (filter_number_from (b_tab b) T).
  - destruct (table_eqb (b_tab b) T); [apply snd_number_from|reflexivity].
  - intros r Hr. apply in_map_iff in Hr. destruct Hr as (rj & <- & Hrj). exact (proj1 (wb_rows_tab _ _ _ _ Wb rj Hrj)).
Qed.

Lemma rows_of_perm T : forall cs cs', Permutation cs cs' -> NoDup (map (fun c => tab_code (fst c)) cs) -> rows_of T cs = rows_of T cs'.
Proof.
  induction 1 as [|x l l' HP IH|x y l|l l' l'' HP1 IH1 HP2 IH2]; intros ND.
  - reflexivity.
  - cbn [rows_of flat_map]. f_equal. apply IH. cbn in ND. inversion ND; assumption.
  - cbn [rows_of flat_map]. cbn [map] in ND. inversion ND as [|? ? Hn _]; subst.
    destruct (table_eqb (fst y) T) eqn:Ey, (table_eqb (fst x) T) eqn:Ex; try reflexivity.
    exfalso. apply Hn. left. apply table_eqb_true in Ey. apply table_eqb_true in Ex. congruence.
  - rewrite IH1 by exact ND. apply IH2. eapply Permutation_NoDup; [|exact ND]. apply Permutation_map. exact HP1.
Qed.

(** ** 3.5 the row numbers of the data rows *)
Fixpoint gen_rownos (sel : block -> bool) (n : Z) (bl : list block) : list Z :=
  match bl with
  | [] => []
  | b :: t => (if sel b then zseq (n + Z.of_nat (length (b_gap b)) + 2) (length (b_rows b)) else []) ++ gen_rownos sel (n + block_len b) t
  end.
Definition sel_tab (T : table) (b : block) : bool := tab_code (b_tab b) =? tab_code T.
Lemma data_rownos_gen T : forall bl n, data_rownos T n bl = gen_rownos (sel_tab T) n bl.
Proof. induction bl as [|b bl IH]; intros n; cbn [data_rownos gen_rownos]; [reflexivity|]. rewrite IH. reflexivity. Qed.

Lemma zseq_bounds : forall k s x, In x (zseq s k) -> s <= x < s + Z.of_nat k.
Proof.
  induction k as [|k IH]; intros s x H; cbn [zseq] in H; [destruct H|]. destruct H as [<-|H]; [lia|]. specialize (IH _ _ H). lia.
Qed.
Lemma zseq_sorted : forall k s, StronglySorted Z.lt (zseq s k).
Proof.
  induction k as [|k IH]; intros s; cbn [zseq]; constructor; [apply IH|].
  apply Forall_forall. intros x Hx. apply zseq_bounds in Hx. lia.
Qed.
Lemma SS_app_R {A} (R : A -> A -> Prop) a b :
  StronglySorted R a -> StronglySorted R b -> (forall x y, In x a -> In y b -> R x y) -> StronglySorted R (a ++ b).
Proof.
  induction a as [|x a IH]; intros Sa Sb H; [exact Sb|]. inversion Sa as [|? ? Sa' Fx]; subst. cbn. constructor.
  - apply IH; [exact Sa'|exact Sb|]. intros u v Hu Hv. apply H; [right; exact Hu|exact Hv].
  - apply Forall_app. split; [exact Fx|]. apply Forall_forall. intros v Hv. apply H; [left; reflexivity|exact Hv].
Qed.
Lemma gen_bounds sel : forall bl n x, In x (gen_rownos sel n bl) -> n + 2 <= x.
Proof.
  induction bl as [|b bl IH]; intros n x H; cbn [gen_rownos] in H; [destruct H|]. apply in_app_or in H. destruct H as [H|H].
  - destruct (sel b); [|destruct H]. apply zseq_bounds in H. lia.
  - specialize (IH _ _ H). unfold block_len in IH. lia.
Qed.
Lemma gen_sorted sel : forall bl n, StronglySorted Z.lt (gen_rownos sel n bl).
Proof.
  induction bl as [|b bl IH]; intros n; cbn [gen_rownos]; [constructor|]. apply SS_app_R; [destruct (sel b); [apply zseq_sorted|constructor]|apply IH|].
  intros x y Hx Hy. apply gen_bounds in Hy. destruct (sel b); [|destruct Hx]. apply zseq_bounds in Hx. unfold block_len in Hy. lia.
Qed.
Lemma gen_partition : forall bl n,
  Permutation (gen_rownos (sel_tab TabIn) n bl ++ gen_rownos (sel_tab TabOut) n bl ++ gen_rownos (sel_tab TabIntra) n bl)
              (gen_rownos (fun _ => true) n bl).
Proof.
  induction bl as [|b bl IH]; intros n; [constructor|]. cbn [gen_rownos]. unfold sel_tab at 1 3 5.
  set (z := zseq (n + Z.of_nat (length (b_gap b)) + 2) (length (b_rows b))).
  set (A := gen_rownos (sel_tab TabIn) (n + block_len b) bl). set (B := gen_rownos (sel_tab TabOut) (n + block_len b) bl).
  set (C := gen_rownos (sel_tab TabIntra) (n + block_len b) bl). specialize (IH (n + block_len b)). fold A B C in IH.
  destruct (b_tab b); cbn [tab_code Z.eqb app].
  - rewrite <- app_assoc. apply Permutation_app_head. exact IH.
  - rewrite <- app_assoc. eapply perm_trans; [apply Permutation_app_swap_app|]. apply Permutation_app_head. exact IH.
  - rewrite app_assoc. eapply perm_trans; [apply Permutation_app_swap_app|]. apply Permutation_app_head. rewrite <- app_assoc. exact IH.
Qed.

Lemma fst_number_from : forall l n, map fst (number_from n l) = zseq n (length l).
Proof. induction l as [|x l IH]; intros n; cbn; [reflexivity|]. rewrite IH. reflexivity. Qed.
Lemma table_eqb_code a b : table_eqb a b = (tab_code a =? tab_code b).
Proof. destruct a, b; reflexivity. Qed.
Lemma numbered_rownos cfg asset T : forall bl n, wf_blocks cfg asset n bl ->
  map fst (filter (is_tab T) (numbered n bl)) = gen_rownos (sel_tab T) n bl.
Proof.
  induction bl as [|b bl IH]; intros n W; [reflexivity|]. cbn [wf_blocks] in W. destruct W as [Wb W].
  cbn [numbered gen_rownos]. rewrite filter_app, map_app. f_equal; [|exact (IH _ W)].
  rewrite (filter_number_from (b_tab b) T).
  - unfold sel_tab. rewrite table_eqb_code. destruct (tab_code (b_tab b) =? tab_code T); [|reflexivity].
    rewrite fst_number_from, map_length. reflexivity.
  - intros r Hr. apply in_map_iff in Hr. destruct Hr as (rj & <- & Hrj). exact (proj1 (wb_rows_tab _ _ _ _ Wb rj Hrj)).
Qed.

(** ** 3.6 the renaming: the k-th data row of a table in the first sheet goes to the k-th data row of that table in the second *)
Fixpoint assoc_z (k : Z) (l : list (Z * Z)) : option Z :=
  match l with [] => None | ab :: t => if fst ab =? k then Some (snd ab) else assoc_z k t end.
Definition rho_of (l1 l2 : list Z) (r : Z) : Z := match assoc_z r (combine l1 l2) with Some r' => r' | None => r end.

Lemma rho_of_notin : forall l1 l2 r, ~ In r l1 -> rho_of l1 l2 r = r.
Proof.
  unfold rho_of. induction l1 as [|a l1 IH]; intros [|b l2] r H; cbn [combine assoc_z fst snd]; try reflexivity.
  destruct (a =? r) eqn:E; [exfalso; apply H; left; lia|]. apply IH. intros Hin. apply H. right; exact Hin.
Qed.
Lemma rho_of_map : forall l1 l2, NoDup l1 -> length l1 = length l2 -> map (rho_of l1 l2) l1 = l2.
Proof.
  induction l1 as [|a l1 IH]; intros [|b l2] Hnd Hlen; cbn [length] in Hlen; try discriminate Hlen; [reflexivity|].
  inversion Hnd as [|? ? Ha Hnd']; subst. cbn [map]. f_equal.
  - unfold rho_of. cbn [combine assoc_z fst snd]. rewrite Z.eqb_refl. reflexivity.
  - transitivity (map (rho_of l1 l2) l1); [|apply IH; [exact Hnd'|lia]].
    apply map_ext_in. intros x Hx. unfold rho_of. cbn [combine assoc_z fst snd].
    destruct (a =? x) eqn:E; [exfalso; apply Ha; replace a with x by lia; exact Hx|reflexivity].
Qed.
Lemma app_eq_len {A} : forall (a a' b b' : list A), length a = length a' -> a ++ b = a' ++ b' -> a = a' /\ b = b'.
Proof.
  induction a as [|x a IH]; intros [|x' a'] b b' Hl H; cbn in Hl; try discriminate Hl; [auto|].
  cbn in H. injection H as -> H. destruct (IH a' b b' ltac:(lia) H) as [-> ->]. auto.
Qed.
Lemma sorted_mono rho : forall l, StronglySorted Z.lt l -> StronglySorted Z.lt (map rho l) -> mono_on rho l.
Proof.
  induction l as [|a l IH]; intros S1 S2 x y Hx Hy Hlt; [destruct Hx|].
  inversion S1 as [|? ? S1' F1]; subst. cbn [map] in S2. inversion S2 as [|? ? S2' F2]; subst.
  rewrite Forall_forall in F1, F2. destruct Hx as [<-|Hx], Hy as [<-|Hy].
  - lia.
  - apply F2. apply in_map. exact Hy.
  - specialize (F1 x Hx). lia.
  - apply IH; assumption.
Qed.

Lemma rebuild_in rho : forall l1 l2, map fg_in l1 = map fg_in l2 -> map i_row l2 = map rho (map i_row l1) -> l2 = map (rn_in rho) l1.
Proof.
  induction l1 as [|a l1 IH]; intros [|b l2] H1 H2; cbn [map] in *; try discriminate; [reflexivity|].
  injection H1 as Hab H1. injection H2 as Hr H2. f_equal; [|apply IH; assumption].
  destruct a, b. unfold rn_in in *. cbn in *. congruence.
Qed.
Lemma rebuild_out rho : forall l1 l2, map fg_out l1 = map fg_out l2 -> map o_row l2 = map rho (map o_row l1) -> l2 = map (rn_out rho) l1.
Proof.
  induction l1 as [|a l1 IH]; intros [|b l2] H1 H2; cbn [map] in *; try discriminate; [reflexivity|].
  injection H1 as Hab H1. injection H2 as Hr H2. f_equal; [|apply IH; assumption].
  destruct a, b. unfold rn_out in *. cbn in *. congruence.
Qed.
Lemma rebuild_intra rho : forall l1 l2, map fg_intra l1 = map fg_intra l2 -> map x_row l2 = map rho (map x_row l1) -> l2 = map (rn_intra rho) l1.
Proof.
  induction l1 as [|a l1 IH]; intros [|b l2] H1 H2; cbn [map] in *; try discriminate; [reflexivity|].
  injection H1 as Hab H1. injection H2 as Hr H2. f_equal; [|apply IH; assumption].
  destruct a, b. unfold rn_intra in *. cbn in *. congruence.
Qed.
Lemma rn_out_fix rho : forall l, (forall o, In o l -> rho (o_row o) = o_row o) -> map (rn_out rho) l = l.
Proof.
  induction l as [|o l IH]; intros H; [reflexivity|]. cbn [map]. f_equal; [|apply IH; intros o' Ho'; apply H; right; exact Ho'].
  specialize (H o (or_introl eq_refl)). destruct o. unfold rn_out. cbn in *. rewrite H. reflexivity.
Qed.

(** the artificial ids are <= 0 when the counter starts at or below 1 (the first sheet row) *)
Lemma expect_row_art cfg a n r a' : expect_row cfg a n r = Ok a' ->
  a_counter a <= 1 -> (forall o, In o (a_art a) -> o_row o <= 0) -> a_counter a' <= 1 /\ (forall o, In o (a_art a') -> o_row o <= 0).
Proof.
  intros E Hc Ha. destruct r as [s|s|s]; cbn [expect_row] in E.
  - destruct (raw_of_in cfg n s) as [raw|]; [|discriminate E]. destruct (mk_in raw) as [tx|]; cbn [bind] in E; [|discriminate E].
    destruct (0 <? i_crypto_fee tx).
    + destruct (split_in tx) as [tx'|]; cbn [bind] in E; [|discriminate E].
      destruct (fee_out tx (a_counter a - 1)) as [o|] eqn:EF; cbn [bind] in E; [|discriminate E]. injection E as <-. cbn.
      split; [lia|]. intros o' Ho'. apply in_app_or in Ho'. destruct Ho' as [Ho'|[<-|[]]]; [exact (Ha o' Ho')|]. rewrite (fee_out_row _ _ _ EF). lia.
    + injection E as <-. cbn. auto.
  - destruct (raw_of_out cfg n s) as [raw|]; [|discriminate E]. destruct (mk_out raw) as [tx|]; cbn [bind] in E; [|discriminate E].
    injection E as <-. cbn. auto.
  - destruct (raw_of_intra cfg n s) as [raw|]; [|discriminate E]. destruct (mk_intra raw) as [tx|]; cbn [bind] in E; [|discriminate E].
    injection E as <-. cbn. auto.
Qed.
Lemma expect_list_art cfg : forall l a a', expect_list cfg a l = Ok a' ->
  a_counter a <= 1 -> (forall o, In o (a_art a) -> o_row o <= 0) -> forall o, In o (a_art a') -> o_row o <= 0.
Proof.
  induction l as [|[n r] l IH]; intros a a' E Hc Ha; cbn [expect_list fst snd] in E; [injection E as <-; exact Ha|].
  destruct (expect_row cfg a n r) as [a1|] eqn:E1; [|discriminate E].
  destruct (expect_row_art _ _ _ _ _ E1 Hc Ha) as [Hc1 Ha1]. exact (IH a1 a' E Hc1 Ha1).
Qed.

(** ** 3.7 assembly: the expected (= parsed) transactions of two sheets holding the same tables *)
Lemma mono_mixed rho P L : mono_on rho P -> (forall x, In x P -> 0 < x /\ 0 < rho x) -> (forall r, r <= 0 -> rho r = r) ->
  (forall x, In x L -> In x P \/ x <= 0) -> mono_on rho L.
Proof.
  intros HM HP HF HL x y Hx Hy Hlt. destruct (HL x Hx) as [Px|Nx], (HL y Hy) as [Py|Ny].
  - apply HM; assumption.
  - destruct (HP x Px). lia.
  - rewrite (HF x Nx). destruct (HP y Py). lia.
  - rewrite (HF x Nx), (HF y Ny). exact Hlt.
Qed.
Lemma inj_mixed rho P L : inj_on rho P -> (forall x, In x P -> 0 < x /\ 0 < rho x) -> (forall r, r <= 0 -> rho r = r) ->
  (forall x, In x L -> In x P \/ x <= 0) -> inj_on rho L.
Proof.
  intros HI HP HF HL x y Hx Hy Heq. destruct (HL x Hx) as [Px|Nx], (HL y Hy) as [Py|Ny].
  - apply HI; assumption.
  - rewrite (HF y Ny) in Heq. destruct (HP x Px). lia.
  - rewrite (HF x Nx) in Heq. destruct (HP y Py). lia.
  - rewrite (HF x Nx), (HF y Ny) in Heq. exact Heq.
Qed.

Theorem table_order_expected : forall cfg asset counter bl1 bl2 p1,
  wf_blocks cfg asset 1 bl1 -> wf_blocks cfg asset 1 bl2 ->
  NoDup (map (fun b => tab_code (b_tab b)) bl1) -> same_tables bl1 bl2 -> counter <= 1 ->
  expected cfg counter bl1 = Ok p1 ->
  exists p2, expected cfg counter bl2 = Ok p2 /\ same_up_to_rows p1 p2.
Proof.
  intros cfg asset c bl1 bl2 p1 W1 W2 ND Hsame Hc E.
  unfold expected in E. destruct (expect_blocks cfg (acc0 c) 1 bl1) as [a1|] eqn:EB1; [|discriminate E]. injection E as <-.
  pose proof EB1 as E1. rewrite expect_blocks_list in E1.
  assert (HT : forall T, map snd (filter (is_tab T) (numbered 1 bl1)) = map snd (filter (is_tab T) (numbered 1 bl2))).
  { intros T. rewrite (numbered_rows_of cfg asset T bl1 1 W1), (numbered_rows_of cfg asset T bl2 1 W2).
    apply rows_of_perm; [exact Hsame|]. rewrite map_map. exact ND. }
  destruct (reorder_lists cfg c _ _ a1 HT E1) as (a2 & E2 & Hsim & Hmeta).
  assert (EB2 : expect_blocks cfg (acc0 c) 1 bl2 = Ok a2) by (rewrite expect_blocks_list; exact E2).
  exists (parsed_of a2). split; [unfold expected; rewrite EB2; reflexivity|].
  destruct Hsim as (Si & So & Sx & Sa & Sc).
  (* the row ids of the six sets *)
  pose proof (expect_blocks_rownos cfg asset bl1 _ _ 1 TabIn W1 EB1) as RA1. pose proof (expect_blocks_rownos cfg asset bl1 _ _ 1 TabOut W1 EB1) as RB1.
  pose proof (expect_blocks_rownos cfg asset bl1 _ _ 1 TabIntra W1 EB1) as RC1.
  pose proof (expect_blocks_rownos cfg asset bl2 _ _ 1 TabIn W2 EB2) as RA2. pose proof (expect_blocks_rownos cfg asset bl2 _ _ 1 TabOut W2 EB2) as RB2.
  pose proof (expect_blocks_rownos cfg asset bl2 _ _ 1 TabIntra W2 EB2) as RC2.
  cbn [tab_rows acc0 a_ins a_outs a_intras map app] in RA1, RB1, RC1, RA2, RB2, RC2. rewrite data_rownos_gen in RA1, RB1, RC1, RA2, RB2, RC2.
  set (A1 := gen_rownos (sel_tab TabIn) 1 bl1) in *. set (B1 := gen_rownos (sel_tab TabOut) 1 bl1) in *. set (C1 := gen_rownos (sel_tab TabIntra) 1 bl1) in *.
  set (A2 := gen_rownos (sel_tab TabIn) 1 bl2) in *. set (B2 := gen_rownos (sel_tab TabOut) 1 bl2) in *. set (C2 := gen_rownos (sel_tab TabIntra) 1 bl2) in *.
  assert (LA : length A1 = length A2) by (rewrite <- RA1, <- RA2, !map_length, <- (map_length fg_in (a_ins a1)), Si, map_length; reflexivity).
  assert (LB : length B1 = length B2) by (rewrite <- RB1, <- RB2, !map_length, <- (map_length fg_out (a_outs a1)), So, map_length; reflexivity).
  assert (LC : length C1 = length C2) by (rewrite <- RC1, <- RC2, !map_length, <- (map_length fg_intra (a_intras a1)), Sx, map_length; reflexivity).
  assert (ND1 : NoDup (A1 ++ B1 ++ C1)).
  { eapply Permutation_NoDup; [apply Permutation_sym, gen_partition|]. apply SS_lt_NoDup, gen_sorted. }
  assert (ND2 : NoDup (A2 ++ B2 ++ C2)).
  { eapply Permutation_NoDup; [apply Permutation_sym, gen_partition|]. apply SS_lt_NoDup, gen_sorted. }
  assert (P1 : forall x, In x (A1 ++ B1 ++ C1) -> 0 < x).
  { intros x Hx. apply in_app_or in Hx. destruct Hx as [Hx|Hx]; [|apply in_app_or in Hx; destruct Hx as [Hx|Hx]]; apply gen_bounds in Hx; lia. }
  assert (P2 : forall x, In x (A2 ++ B2 ++ C2) -> 0 < x).
  { intros x Hx. apply in_app_or in Hx. destruct Hx as [Hx|Hx]; [|apply in_app_or in Hx; destruct Hx as [Hx|Hx]]; apply gen_bounds in Hx; lia. }
  set (rho := rho_of (A1 ++ B1 ++ C1) (A2 ++ B2 ++ C2)).
  assert (Hmap : map rho (A1 ++ B1 ++ C1) = A2 ++ B2 ++ C2) by (apply rho_of_map; [exact ND1|rewrite !app_length; lia]).
  pose proof Hmap as Hmap'. rewrite !map_app in Hmap'.
  destruct (app_eq_len _ _ _ _ ltac:(rewrite map_length; exact LA) Hmap') as [MA Hmap''].
  destruct (app_eq_len _ _ _ _ ltac:(rewrite map_length; exact LB) Hmap'') as [MB MC]. clear Hmap' Hmap''.
  assert (Hfix : forall r, r <= 0 -> rho r = r).
  { intros r Hr. apply rho_of_notin. intros Hin. specialize (P1 r Hin). lia. }
  assert (Hpos : forall x, In x (A1 ++ B1 ++ C1) -> 0 < x /\ 0 < rho x).
  { intros x Hx. split; [exact (P1 x Hx)|]. apply P2. rewrite <- Hmap. apply in_map. exact Hx. }
  assert (Hart : forall o, In o (a_art a1) -> o_row o <= 0).
  { apply (expect_list_art cfg _ _ _ E1); [exact Hc|intros o []]. }
  assert (Hinj1 : inj_on rho (A1 ++ B1 ++ C1)).
  { intros x y Hx Hy Heq. apply (NoDup_map_inj_Z rho (A1 ++ B1 ++ C1)); [rewrite Hmap; exact ND2|exact Hx|exact Hy|exact Heq]. }
  assert (Hrows : forall x, In x (parsed_rows (parsed_of a1)) -> In x (A1 ++ B1 ++ C1) \/ x <= 0).
  { intros x Hx. unfold parsed_rows, parsed_of in Hx. cbn [pa_ins pa_outs pa_intras] in Hx. rewrite map_app, RA1, RB1, RC1 in Hx.
    rewrite !in_app_iff in Hx. rewrite !in_app_iff. destruct Hx as [Hx|[[Hx|Hx]|Hx]]; try tauto.
    right. apply in_map_iff in Hx. destruct Hx as (o & <- & Ho). exact (Hart o Ho). }
  exists rho. unfold renamed_by, parsed_of. cbn [pa_ins pa_outs pa_intras pa_counter pa_meta]. split; [|split; [|split; [|split; [|split]]]].
  - constructor; cbn [pa_ins pa_outs pa_intras].
    + exact Hfix.
    + intros r Hr Hp. destruct (Hrows r Hr) as [H|H]; [exact (proj2 (Hpos r H))|lia].
    + rewrite RA1. apply sorted_mono; [apply gen_sorted|rewrite MA; apply gen_sorted].
    + apply (mono_mixed rho B1); [apply sorted_mono; [apply gen_sorted|rewrite MB; apply gen_sorted]| |exact Hfix|].
      * intros x Hx. apply Hpos. apply in_or_app. right. apply in_or_app. left. exact Hx.
      * intros x Hx. rewrite map_app, RB1 in Hx. apply in_app_or in Hx. destruct Hx as [Hx|Hx]; [left; exact Hx|].
        right. apply in_map_iff in Hx. destruct Hx as (o & <- & Ho). exact (Hart o Ho).
    + rewrite RC1. apply sorted_mono; [apply gen_sorted|rewrite MC; apply gen_sorted].
    + apply (inj_mixed rho (A1 ++ B1 ++ C1)); [exact Hinj1|exact Hpos|exact Hfix|exact Hrows].
  - apply rebuild_in; [exact Si|]. rewrite RA1, RA2, MA. reflexivity.
  - rewrite map_app. f_equal.
    + apply rebuild_out; [exact So|]. rewrite RB1, RB2, MB. reflexivity.
    + rewrite <- Sa. symmetry. apply rn_out_fix. intros o Ho. apply Hfix. exact (Hart o Ho).
  - apply rebuild_intra; [exact Sx|]. rewrite RC1, RC2, MC. reflexivity.
  - symmetry. exact Sc.
  - apply (Hmeta rho Hfix Hc). intros T. rewrite (numbered_rownos cfg asset T bl1 1 W1), (numbered_rownos cfg asset T bl2 1 W2).
    destruct T; [exact MA|exact MB|exact MC].
Qed.

(** ... stated on the parser: the two rendered sheets parse to results that are equal up to row ids *)
Theorem table_order_parse_invariant : forall cfg asset ai counter bl1 bl2 tr1 tr2 p1,
  str_index asset (pc_assets cfg) 0 = Some ai ->
  wf_blocks cfg asset 1 bl1 -> wf_blocks cfg asset 1 bl2 ->
  NoDup (map (fun b => tab_code (b_tab b)) bl1) -> same_tables bl1 bl2 ->
  (forall r, In r tr1 -> is_blank_row r = true) -> (forall r, In r tr2 -> is_blank_row r = true) ->
  counter <= 1 -> expected cfg counter bl1 = Ok p1 -> pa_ins p1 <> [] ->
  parse_sheet cfg asset counter (render_sheet cfg asset bl1 tr1) = Ok p1 /\
  exists p2, parse_sheet cfg asset counter (render_sheet cfg asset bl2 tr2) = Ok p2 /\ same_up_to_rows p1 p2.
Proof.
  intros cfg asset ai c bl1 bl2 tr1 tr2 p1 Ha W1 W2 ND Hsame T1 T2 Hc E NE.
  split; [exact (parse_render cfg asset ai c bl1 tr1 p1 Ha W1 ND T1 E NE)|].
  destruct (table_order_expected cfg asset c bl1 bl2 p1 W1 W2 ND Hsame Hc E) as (p2 & E2 & HS). exists p2. split; [|exact HS].
  apply (parse_render cfg asset ai c bl2 tr2 p2 Ha W2); [|exact T2|exact E2|].
  - assert (HP : Permutation (map (fun b => tab_code (b_tab b)) bl1) (map (fun b => tab_code (b_tab b)) bl2)).
    { assert (HM : forall bl, map (fun b => tab_code (b_tab b)) bl = map (fun c => tab_code (fst c)) (map block_content bl))
        by (intros bl; rewrite map_map; reflexivity).
      rewrite !HM. apply Permutation_map. exact Hsame. }
    exact (Permutation_NoDup HP ND).
  - destruct HS as (rho & _ & Hi & _). rewrite Hi. destruct (pa_ins p1); [contradiction|discriminate].
Qed.

(** equal up to row ids, in the "forget the ids" reading; the artificial fee disposals coincide WITH their ids *)
Lemma filter_map_in {A B} (f : A -> B) (p : B -> bool) (q : A -> bool) : forall l,
  (forall x, In x l -> p (f x) = q x) -> filter p (map f l) = map f (filter q l).
Proof.
  induction l as [|x l IH]; intros H; cbn [map filter]; [reflexivity|].
  rewrite (H x (or_introl eq_refl)), IH by (intros y Hy; apply H; right; exact Hy). destruct (q x); reflexivity.
Qed.

Theorem same_up_to_rows_forget p1 p2 : same_up_to_rows p1 p2 ->
  map fg_in (pa_ins p1) = map fg_in (pa_ins p2) /\ map fg_out (pa_outs p1) = map fg_out (pa_outs p2) /\
  map fg_intra (pa_intras p1) = map fg_intra (pa_intras p2) /\ pa_counter p1 = pa_counter p2 /\
  filter (fun o => o_row o <=? 0) (pa_outs p1) = filter (fun o => o_row o <=? 0) (pa_outs p2).
Proof.
  intros (rho & TR & Hi & Ho & Hx & Hc & _). rewrite Hi, Ho, Hx, Hc, !map_map. do 4 (split; [reflexivity|]).
  rewrite (filter_map_in (rn_out rho) (fun o => o_row o <=? 0) (fun o => o_row o <=? 0)).
  - symmetry. apply rn_out_fix. intros o Hin. apply filter_In in Hin. apply (tr_fix _ _ TR). lia.
  - intros o Hin. cbn [rn_out o_row]. destruct (Z_le_gt_dec (o_row o) 0) as [Hle|Hgt].
    + rewrite (tr_fix _ _ TR _ Hle). reflexivity.
    + assert (Hr : In (o_row o) (parsed_rows p1)) by (unfold parsed_rows; apply in_or_app; right; apply in_or_app; left; apply in_map; exact Hin).
      pose proof (tr_pos _ _ TR _ Hr ltac:(lia)). lia.
Qed.

(** * 4. composition: parsed result -> time-sorted sets -> taxable events -> fractions *)

Lemma txs_of_lists_inv ins outs intras t : txs_of_lists ins outs intras = Ok t ->
  t_ins t = sort_by in_us ins /\ t_outs t = sort_by out_us outs /\ t_intras t = sort_by intra_us intras.
Proof.
  unfold txs_of_lists. destruct (has_dup (map i_row ins) || has_dup (map o_row outs) || has_dup (map x_row intras)); [discriminate|].
  destruct ins; [discriminate|]. intros [= <-]. auto.
Qed.

(** [build] is the constructors followed by [txs_of_lists] *)
Lemma build_txs_of_lists h : build h =
  match map_result mk_in (h_ins h) with
  | Err e => Err e
  | Ok ins => match map_result mk_out (h_outs h) with
              | Err e => Err e
              | Ok outs => match map_result mk_intra (h_intras h) with Err e => Err e | Ok intras => txs_of_lists ins outs intras end
              end
  end.
Proof. reflexivity. Qed.

Lemma inj_on_incl rho l l' : inj_on rho l -> (forall x, In x l' -> In x l) -> inj_on rho l'.
Proof. intros H Hin x y Hx Hy. apply H; apply Hin; assumption. Qed.

Theorem renamed_txs rho p1 p2 : renamed_by rho p1 p2 -> txs_of_parsed p2 = rn_res (rn_txs rho) (txs_of_parsed p1).
Proof.
  intros (TR & Hi & Ho & Hx & _). unfold txs_of_parsed, txs_of_lists. rewrite Hi, Ho, Hx.
  assert (R1 : map i_row (map (rn_in rho) (pa_ins p1)) = map rho (map i_row (pa_ins p1))) by (rewrite !map_map; reflexivity).
  assert (R2 : map o_row (map (rn_out rho) (pa_outs p1)) = map rho (map o_row (pa_outs p1))) by (rewrite !map_map; reflexivity).
  assert (R3 : map x_row (map (rn_intra rho) (pa_intras p1)) = map rho (map x_row (pa_intras p1))) by (rewrite !map_map; reflexivity).
  rewrite R1, R2, R3.
  rewrite (has_dup_map_inj rho (map i_row (pa_ins p1))), (has_dup_map_inj rho (map o_row (pa_outs p1))), (has_dup_map_inj rho (map x_row (pa_intras p1))).
  - destruct (has_dup (map i_row (pa_ins p1)) || has_dup (map o_row (pa_outs p1)) || has_dup (map x_row (pa_intras p1))); [reflexivity|].
    destruct (pa_ins p1) as [|a l] eqn:E; [reflexivity|]. rewrite <- E. cbn [rn_res]. unfold rn_txs. cbn [t_ins t_outs t_intras].
    destruct (map (rn_in rho) (pa_ins p1)) eqn:E'; [rewrite E in E'; discriminate E'|]. rewrite <- E'.
    rewrite !sort_by_map.
    rewrite (sort_by_ext (fun b => in_us (rn_in rho b)) in_us), (sort_by_ext (fun b => out_us (rn_out rho b)) out_us),
            (sort_by_ext (fun b => intra_us (rn_intra rho b)) intra_us) by reflexivity. reflexivity.
  - apply (inj_on_incl rho _ _ (tr_inj _ _ TR)). intros x H. unfold parsed_rows. apply in_or_app. right. apply in_or_app. right. exact H.
  - apply (inj_on_incl rho _ _ (tr_inj _ _ TR)). intros x H. unfold parsed_rows. apply in_or_app. right. apply in_or_app. left. exact H.
  - apply (inj_on_incl rho _ _ (tr_inj _ _ TR)). intros x H. unfold parsed_rows. apply in_or_app. left. exact H.
Qed.

Theorem renamed_pipeline rho p1 p2 t1 : renamed_by rho p1 p2 -> txs_of_parsed p1 = Ok t1 ->
  txs_of_parsed p2 = Ok (rn_txs rho t1) /\
  taxable_events (rn_txs rho t1) = rn_res (map (rn_txn rho)) (taxable_events t1) /\
  forall b sched, fractions_of b sched (rn_txs rho t1) = rn_res (map (rn_frac rho)) (fractions_of b sched t1).
Proof.
  intros HR HT. pose proof (renamed_txs rho p1 p2 HR) as H2. rewrite HT in H2. split; [exact H2|].
  destruct HR as (TR & _). destruct (txs_of_lists_inv _ _ _ _ HT) as (T1 & T2 & T3).
  assert (rho0 : rho 0 = 0) by (apply (tr_fix _ _ TR); lia).
  assert (Hin : forall x, In x (map i_row (t_ins t1)) -> In x (map i_row (pa_ins p1))).
  { intros x Hx. apply in_map_iff in Hx. destruct Hx as (a & <- & Ha). rewrite T1 in Ha. apply sort_by_in in Ha. apply in_map. exact Ha. }
  assert (Hmono : mono_on rho (0 :: map i_row (t_ins t1))).
  { intros x y Hx Hy Hlt.
    assert (Hp : forall z, In z (map i_row (t_ins t1)) -> In z (parsed_rows p1)) by (intros z Hz; unfold parsed_rows; apply in_or_app; left; exact (Hin z Hz)).
    destruct Hx as [<-|Hx], Hy as [<-|Hy].
    - lia.
    - rewrite rho0. exact (tr_pos _ _ TR _ (Hp _ Hy) Hlt).
    - rewrite rho0, (tr_fix _ _ TR x) by lia. exact Hlt.
    - apply (tr_in _ _ TR); [exact (Hin _ Hx)|exact (Hin _ Hy)|exact Hlt]. }
  assert (Hinj : inj_on rho (map t_row (taxable_unsorted t1))).
  { apply (inj_on_incl rho _ _ (tr_inj _ _ TR)). intros x Hx. apply in_map_iff in Hx. destruct Hx as (e & <- & He).
    apply taxable_unsorted_iff in He. unfold parsed_rows. rewrite !in_app_iff.
    destruct He as [(a & -> & Ha & _)|[(a & -> & Ha)|(a & -> & Ha & _)]]; cbn [t_row].
    - left. rewrite T1 in Ha. apply sort_by_in in Ha. apply in_map. exact Ha.
    - right. left. rewrite T2 in Ha. apply sort_by_in in Ha. apply in_map. exact Ha.
    - right. right. rewrite T3 in Ha. apply sort_by_in in Ha. apply in_map. exact Ha. }
  split; [exact (taxable_events_rn rho t1 Hinj)|exact (fractions_rn rho t1 rho0 Hmono Hinj)].
Qed.

(** the composed statement: two sheets holding the same tables in different orders (different blank rows, junk, widths)
    give, from the parser to the gain/loss fractions, the same results up to one renaming of sheet rows *)
Theorem table_order_pipeline_invariant : forall cfg asset ai counter bl1 bl2 tr1 tr2 p1,
  str_index asset (pc_assets cfg) 0 = Some ai ->
  wf_blocks cfg asset 1 bl1 -> wf_blocks cfg asset 1 bl2 ->
  NoDup (map (fun b => tab_code (b_tab b)) bl1) -> same_tables bl1 bl2 ->
  (forall r, In r tr1 -> is_blank_row r = true) -> (forall r, In r tr2 -> is_blank_row r = true) ->
  counter <= 1 -> expected cfg counter bl1 = Ok p1 -> pa_ins p1 <> [] ->
  parse_sheet cfg asset counter (render_sheet cfg asset bl1 tr1) = Ok p1 /\
  exists p2 rho,
    parse_sheet cfg asset counter (render_sheet cfg asset bl2 tr2) = Ok p2 /\ renamed_by rho p1 p2 /\
    txs_of_parsed p2 = rn_res (rn_txs rho) (txs_of_parsed p1) /\
    forall t1, txs_of_parsed p1 = Ok t1 ->
      taxable_events (rn_txs rho t1) = rn_res (map (rn_txn rho)) (taxable_events t1) /\
      forall b sched, fractions_of b sched (rn_txs rho t1) = rn_res (map (rn_frac rho)) (fractions_of b sched t1).
Proof.
  intros cfg asset ai c bl1 bl2 tr1 tr2 p1 Ha W1 W2 ND Hsame T1 T2 Hc E NE.
  destruct (table_order_parse_invariant cfg asset ai c bl1 bl2 tr1 tr2 p1 Ha W1 W2 ND Hsame T1 T2 Hc E NE) as (P1 & p2 & P2 & rho & HR).
  split; [exact P1|]. exists p2, rho. split; [exact P2|]. split; [exact HR|]. split; [exact (renamed_txs rho p1 p2 HR)|].
  intros t1 Ht1. exact (proj2 (renamed_pipeline rho p1 p2 t1 HR Ht1)).
Qed.

Theorem pipeline_row_renaming : forall (rho : Z -> Z) t, rho 0 = 0 -> mono_on rho (0 :: map i_row (t_ins t)) ->
  inj_on rho (map t_row (taxable_unsorted t)) ->
  taxable_events (rn_txs rho t) = rn_res (map (rn_txn rho)) (taxable_events t) /\
  forall b sched, fractions_of b sched (rn_txs rho t) = rn_res (map (rn_frac rho)) (fractions_of b sched t).
Proof. intros rho t H0 Hm Hi. exact (conj (taxable_events_rn rho t Hi) (fractions_rn rho t H0 Hm Hi)). Qed.
