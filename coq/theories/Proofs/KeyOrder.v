(** Facts tying the proof to Generated.v, the key order, rank injectivity and the
    characterisation of [best] as THE minimum of the available lots. *)
From Coq Require Import List ZArith Lia Bool ZifyBool.
From RP2V Require Import Base.Prelude Base.Time Base.Dec Model.Types Model.Generated
  Model.Matcher Model.MatchSpec Model.MatchWf.
Open Scope Z_scope.

(** * What we need from Generated.v (re-checked on every regeneration) *)
Lemma meth_kind_Fifo : meth_kind Fifo = Chrono true. Proof. reflexivity. Qed.
Lemma meth_kind_Lifo : meth_kind Lifo = Feature. Proof. reflexivity. Qed.
Lemma meth_kind_Hifo : meth_kind Hifo = Feature. Proof. reflexivity. Qed.
Lemma meth_kind_Lofo : meth_kind Lofo = Feature. Proof. reflexivity. Qed.
Lemma msk_Lifo : forall l, meth_sort_key Lifo l = (0, - utc_us (i_ts l), - i_row l).
Proof. reflexivity. Qed.
Lemma msk_Hifo : forall l, meth_sort_key Hifo l = (- i_spot l, utc_us (i_ts l), i_row l).
Proof. reflexivity. Qed.
Lemma msk_Lofo : forall l, meth_sort_key Lofo l = (i_spot l, utc_us (i_ts l), i_row l).
Proof. reflexivity. Qed.

Lemma meth_kind_feature m : m <> Fifo -> meth_kind m = Feature.
Proof.
  destruct m; intros H; try congruence.
  - apply meth_kind_Lifo. - apply meth_kind_Hifo. - apply meth_kind_Lofo.
Qed.

(** * key_ltb is a strict total order *)
Lemma key_ltb_irrefl a : key_ltb a a = false.
Proof. destruct a as [[a1 a2] a3]. unfold key_ltb. lia. Qed.

Lemma key_ltb_trans a b c : key_ltb a b = true -> key_ltb b c = true -> key_ltb a c = true.
Proof.
  destruct a as [[a1 a2] a3], b as [[b1 b2] b3], c as [[c1 c2] c3]. unfold key_ltb. lia.
Qed.

Lemma key_ltb_total a b : key_ltb a b = false -> a = b \/ key_ltb b a = true.
Proof.
  destruct a as [[a1 a2] a3], b as [[b1 b2] b3]. unfold key_ltb. intros H.
  assert (Hc : (a1 = b1 /\ a2 = b2 /\ a3 = b3) \/
               ((b1 <? a1) || ((b1 =? a1) && ((b2 <? a2) || ((b2 =? a2) && (b3 <? a3))))) = true) by lia.
  destruct Hc as [(-> & -> & ->)|Hc]; auto.
Qed.

Lemma key_ltb_asym a b : key_ltb a b = true -> key_ltb b a = true -> False.
Proof.
  intros H1 H2. pose proof (key_ltb_trans _ _ _ H1 H2) as H. rewrite key_ltb_irrefl in H. discriminate.
Qed.

Section Lots.
Variable lots : list intx.
Hypothesis Hsorted : lots_sorted lots.
Hypothesis Hrows : lots_distinct_rows lots.

Local Notation n := (length lots).

Lemma row_inj i j : (i < n)%nat -> (j < n)%nat -> i_row (lotn lots i) = i_row (lotn lots j) -> i = j.
Proof.
  intros Hi Hj H. unfold lots_distinct_rows in Hrows.
  rewrite (NoDup_nth (map i_row lots) (i_row dummy_lot)) in Hrows.
  apply Hrows; rewrite ?map_length; auto.
  rewrite !map_nth. exact H.
Qed.

Lemma lot_us_mono i j : (i <= j)%nat -> (j < n)%nat -> lot_us lots i <= lot_us lots j.
Proof.
  intros Hij Hj. destruct (Nat.eq_dec i j) as [->|Hne]; [lia|].
  destruct (Hsorted i j) as [H|[H _]]; lia.
Qed.

Lemma hkey_rank m i : m <> Fifo -> hkey lots m i = spec_rank lots m i.
Proof.
  intros Hm. unfold hkey, spec_rank. destruct m; try congruence.
  - apply msk_Lifo. - apply msk_Hifo. - apply msk_Lofo.
Qed.

Lemma rank_inj m i j : (i < n)%nat -> (j < n)%nat -> spec_rank lots m i = spec_rank lots m j -> i = j.
Proof.
  intros Hi Hj H. unfold spec_rank in H.
  destruct m; inversion H; try (apply row_inj; auto; lia). lia.
Qed.

Lemma rank_total m i j : (i < n)%nat -> (j < n)%nat ->
  key_ltb (spec_rank lots m i) (spec_rank lots m j) = false ->
  i = j \/ key_ltb (spec_rank lots m j) (spec_rank lots m i) = true.
Proof.
  intros Hi Hj H. destruct (key_ltb_total _ _ H) as [E|E]; auto. left. eapply rank_inj; eauto.
Qed.

Lemma fifo_rank_lt i j : (i < j)%nat -> (j < n)%nat ->
  key_ltb (spec_rank lots Fifo i) (spec_rank lots Fifo j) = true.
Proof.
  intros Hij Hj. pose proof (lot_us_mono i j ltac:(lia) Hj) as Hm.
  unfold spec_rank, key_ltb. fold (lot_us lots i) (lot_us lots j). lia.
Qed.

(** * available lots and the best one *)
Definition okl (t : Z) (rem : list Z) (j : nat) : Prop :=
  (j < n)%nat /\ lot_us lots j <= t /\ 0 < nth j rem 0.

Definition is_best (m : meth) (t : Z) (rem : list Z) (i : nat) : Prop :=
  okl t rem i /\
  forall j, okl t rem j -> j = i \/ key_ltb (spec_rank lots m i) (spec_rank lots m j) = true.

Lemma is_best_unique m t rem i j : is_best m t rem i -> is_best m t rem j -> i = j.
Proof.
  intros [Hi Hi'] [Hj Hj']. destruct (Hi' j Hj) as [|H1]; auto. destruct (Hj' i Hi) as [|H2]; auto.
  exfalso. eapply key_ltb_asym; eauto.
Qed.

Lemma best_aux_inv m t rem : forall k i b,
  (i + k = n)%nat ->
  match b with
  | None => forall j, (j < i)%nat -> ~ okl t rem j
  | Some x => okl t rem x /\ forall j, (j < i)%nat -> okl t rem j ->
                j = x \/ key_ltb (spec_rank lots m x) (spec_rank lots m j) = true
  end ->
  match best_aux lots m t rem i k b with
  | None => forall j, ~ okl t rem j
  | Some x => is_best m t rem x
  end.
Proof.
  induction k as [|k IH]; intros i b Hik Hb.
  - cbn [best_aux]. destruct b as [x|].
    + destruct Hb as [Hx Hmin]. split; auto. intros j Hj. apply Hmin; auto. destruct Hj; lia.
    + intros j Hj. apply (Hb j); auto. destruct Hj; lia.
  - cbn [best_aux]. apply IH; [lia|].
    destruct ((lot_us lots i <=? t) && (nth i rem 0 >? 0)) eqn:Hok.
    + assert (Hoki : okl t rem i) by (unfold okl; split; [lia|lia]).
      destruct b as [x|].
      * destruct Hb as [Hx Hmin].
        destruct (key_ltb (spec_rank lots m i) (spec_rank lots m x)) eqn:Hlt.
        -- split; auto. intros j Hj Hokj.
           destruct (Nat.eq_dec j i) as [->|Hne]; auto. right.
           destruct (Hmin j ltac:(lia) Hokj) as [->|Hxj]; auto.
           eapply key_ltb_trans; eauto.
        -- split; auto. intros j Hj Hokj.
           destruct (Nat.eq_dec j i) as [->|Hne].
           ++ destruct (rank_total m i x) as [->|H]; auto; try lia. destruct Hx; lia.
           ++ apply Hmin; auto. lia.
      * split; auto. intros j Hj Hokj.
        destruct (Nat.eq_dec j i) as [->|Hne]; auto. exfalso. apply (Hb j); auto. lia.
    + assert (Hnok : ~ okl t rem i) by (unfold okl; lia).
      destruct b as [x|].
      * destruct Hb as [Hx Hmin]. split; auto. intros j Hj Hokj.
        destruct (Nat.eq_dec j i) as [->|Hne]; [contradiction|]. apply Hmin; auto. lia.
      * intros j Hj. destruct (Nat.eq_dec j i) as [->|Hne]; auto. apply Hb. lia.
Qed.

Lemma best_char m t rem :
  match best lots m t rem with
  | None => forall j, ~ okl t rem j
  | Some x => is_best m t rem x
  end.
Proof.
  unfold best. apply best_aux_inv; [lia|]. intros j Hj. lia.
Qed.

Lemma best_some m t rem i : is_best m t rem i -> best lots m t rem = Some i.
Proof.
  intros Hi. pose proof (best_char m t rem) as H. destruct (best lots m t rem) as [x|].
  - f_equal. eapply is_best_unique; eauto.
  - exfalso. apply (H i). apply Hi.
Qed.

Lemma best_none m t rem : (forall j, ~ okl t rem j) -> best lots m t rem = None.
Proof.
  intros Hn. pose proof (best_char m t rem) as H. destruct (best lots m t rem) as [x|]; auto.
  exfalso. apply (Hn x). apply H.
Qed.

(** [best] only depends on which lots are available *)
Lemma is_best_ext m t rem rem' i :
  (forall j, (j < n)%nat -> (0 < nth j rem 0 <-> 0 < nth j rem' 0)) ->
  is_best m t rem i -> is_best m t rem' i.
Proof.
  intros Hext [Hi Hmin].
  assert (Hok : forall j, okl t rem j <-> okl t rem' j).
  { intros j. unfold okl. split; intros (A & B & C); repeat split; auto; apply (Hext j A); auto. }
  split; [apply Hok; auto|]. intros j Hj. apply Hmin. apply Hok; auto.
Qed.

End Lots.
