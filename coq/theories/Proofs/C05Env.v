(** The generic country plugin's reading of LONG_TERM_CAPITAL_GAINS (Model/EntryC05Env.v): which values are accepted, with
    which threshold, and which are rejected. *)
From Coq Require Import List ZArith Bool Lia ZifyBool.
From RP2V Require Import Base.Prelude Base.Time Base.Dec Model.Types Model.Generated Model.EntryC05Env Proofs.C05Proofs.
Import ListNotations.
Open Scope Z_scope.

(** * the digits *)
Definition dstep (a c : Z) : Z := a * 10 + (c - 48).
(** value of a string of digit characters, most significant first *)
Definition digits_value (s : str) : Z := fold_left dstep s 0.
Definition all_digits (s : str) : Prop := forall c, In c s -> is_digit c = true.

Lemma digits_scan_digits : forall s acc n b, all_digits s -> (s <> [] \/ b = true) ->
  digits_scan s acc n b = Some (fold_left dstep s acc, n + Z.of_nat (length s)).
Proof.
  induction s as [|c t IH]; intros acc n b Hd Hne; cbn [digits_scan fold_left length].
  - destruct Hne as [Hne| ->]; [congruence|]. f_equal. f_equal. lia.
  - rewrite (Hd c (or_introl eq_refl)). rewrite IH; [|intros x Hx; apply Hd; right; exact Hx|right; reflexivity].
    unfold dstep. f_equal. f_equal. lia.
Qed.

Lemma digits_scan_bad : forall s acc n b c, In c s -> is_digit c = false -> c <> 95 -> digits_scan s acc n b = None.
Proof.
  induction s as [|x t IH]; intros acc n b c Hin Hnd Hnu; [destruct Hin|]. cbn [digits_scan].
  destruct Hin as [->|Hin].
  - rewrite Hnd. assert (E : (c =? 95) = false) by lia. rewrite E. reflexivity.
  - destruct (is_digit x); [exact (IH _ _ _ c Hin Hnd Hnu)|].
    destruct ((x =? 95) && b); [exact (IH _ _ _ c Hin Hnd Hnu)|reflexivity].
Qed.

(** * stripping *)
Lemma lstrip_c_id s : match s with c :: _ => is_c_space c = false | [] => True end -> lstrip_c s = s.
Proof. destruct s as [|c t]; [reflexivity|]. cbn [lstrip_c]. intros ->. reflexivity. Qed.

Lemma lstrip_c_keeps s c : In c s -> is_c_space c = false -> In c (lstrip_c s).
Proof.
  induction s as [|x t IH]; intros Hin Hc; [destruct Hin|]. cbn [lstrip_c].
  destruct (is_c_space x) eqn:E; [|exact Hin].
  destruct Hin as [->|Hin]; [congruence|exact (IH Hin Hc)].
Qed.
Lemma strip_c_keeps s c : In c s -> is_c_space c = false -> In c (strip_c s).
Proof.
  intros Hin Hc. unfold strip_c. apply in_rev. rewrite rev_involutive.
  apply lstrip_c_keeps; [|exact Hc]. apply -> in_rev. apply lstrip_c_keeps; assumption.
Qed.

Lemma digit_not_space c : is_digit c = true -> is_c_space c = false.
Proof. unfold is_digit, is_c_space. lia. Qed.

Lemma strip_c_digits s : all_digits s -> strip_c s = s.
Proof.
  intros Hd. unfold strip_c.
  rewrite (lstrip_c_id s).
  2:{ destruct s as [|c t]; [exact I|]. apply digit_not_space, Hd. left. reflexivity. }
  rewrite (lstrip_c_id (rev s)); [apply rev_involutive|].
  destruct (rev s) as [|c t] eqn:E; [exact I|]. apply digit_not_space, Hd. apply in_rev. rewrite E. left. reflexivity.
Qed.

(** * a plain string of digits is read as its value *)
Theorem int_of_digits md s : s <> [] -> all_digits s -> md = 0 \/ Z.of_nat (length s) <= md ->
  int_of_ascii md s = Some (digits_value s).
Proof.
  intros Hne Hd Hlim. unfold int_of_ascii. rewrite (strip_c_digits s Hd).
  destruct s as [|c t]; [congruence|]. unfold split_sign.
  pose proof (Hd c (or_introl eq_refl)) as Hc. unfold is_digit in Hc.
  assert (E1 : (c =? 45) = false) by lia. assert (E2 : (c =? 43) = false) by lia. rewrite E1, E2.
  rewrite (digits_scan_digits (c :: t) 0 0 false Hd (or_introl Hne)).
  assert (EL : limit_ok md (0 + Z.of_nat (length (c :: t))) = true) by (unfold limit_ok; lia). rewrite EL. reflexivity.
Qed.

Lemma digits_value_nonneg : forall s acc, all_digits s -> 0 <= acc -> 0 <= fold_left dstep s acc.
Proof.
  induction s as [|c t IH]; intros acc Hd Ha; cbn [fold_left]; [exact Ha|].
  apply IH; [intros x Hx; apply Hd; right; exact Hx|].
  pose proof (Hd c (or_introl eq_refl)) as Hc. unfold is_digit in Hc. unfold dstep. lia.
Qed.

Theorem generic_env_accepts_digits md s : s <> [] -> all_digits s -> md = 0 \/ Z.of_nat (length s) <= md ->
  generic_period_of_env md (Some s) = Ok (digits_value s) /\ generic_threshold md (Some s) = Ok (digits_value s).
Proof.
  intros Hne Hd Hlim. unfold generic_threshold, generic_period_of_env. rewrite (int_of_digits md s Hne Hd Hlim).
  destruct s as [|c t]; [congruence|].
  pose proof (digits_value_nonneg (c :: t) 0 Hd ltac:(lia)) as Hp. fold (digits_value (c :: t)) in Hp.
  assert (E : (digits_value (c :: t) <? 0) = false) by lia. rewrite E. rewrite period_generic. split; reflexivity.
Qed.

(** * the decimal literal of n *)
Fixpoint lval (l : list Z) : Z := match l with [] => 0 | d :: t => d + 10 * lval t end.

Lemma rdigits_value : forall fuel n, 0 <= n < 2 ^ Z.of_nat fuel -> lval (rdigits fuel n) = n.
Proof.
  induction fuel as [|f IH]; intros n Hn.
  - cbn in Hn. cbn [rdigits lval]. lia.
  - cbn [rdigits lval]. destruct (n <? 10) eqn:E.
    + cbn [lval]. rewrite Z.mod_small by lia. lia.
    + rewrite IH.
      * pose proof (Z.div_mod n 10 ltac:(lia)). lia.
      * rewrite Nat2Z.inj_succ, Z.pow_succ_r in Hn by lia.
        split; [apply Z.div_pos; lia|]. apply Z.div_lt_upper_bound; lia.
Qed.

Lemma rdigits_range : forall fuel n d, 0 <= n -> In d (rdigits fuel n) -> 0 <= d < 10.
Proof.
  induction fuel as [|f IH]; intros n d Hn Hin; [destruct Hin|]. cbn [rdigits] in Hin.
  destruct Hin as [<-|Hin]; [apply Z.mod_pos_bound; lia|].
  destruct (n <? 10); [destruct Hin|]. apply (IH (n / 10) d); [apply Z.div_pos; lia|exact Hin].
Qed.

Lemma fold_dstep_app a b acc : fold_left dstep (a ++ b) acc = fold_left dstep b (fold_left dstep a acc).
Proof. apply fold_left_app. Qed.

Lemma digits_value_rev l : digits_value (map (fun d => 48 + d) (rev l)) = lval l.
Proof.
  unfold digits_value. induction l as [|d t IH]; [reflexivity|].
  cbn [rev lval]. rewrite map_app, fold_dstep_app, IH. cbn [map fold_left]. unfold dstep. lia.
Qed.

Lemma log2_fuel n : 0 <= n -> 0 <= n < 2 ^ Z.of_nat (S (Z.to_nat (Z.log2 n))).
Proof.
  intros Hn. split; [exact Hn|]. rewrite Nat2Z.inj_succ, Z2Nat.id by apply Z.log2_nonneg.
  destruct (Z.eq_dec n 0) as [->|Hnz]; [cbn; lia|]. apply Z.log2_spec. lia.
Qed.

Theorem decimal_literal_value n : 0 <= n -> digits_value (decimal_literal n) = n.
Proof. intros Hn. unfold decimal_literal. rewrite digits_value_rev. apply rdigits_value. apply log2_fuel. exact Hn. Qed.

Theorem decimal_literal_digits n : 0 <= n -> decimal_literal n <> [] /\ all_digits (decimal_literal n).
Proof.
  intros Hn. unfold decimal_literal. split.
  - cbn [rdigits rev]. intros H. apply map_eq_nil in H. apply app_eq_nil in H. destruct H as [_ H]. discriminate H.
  - intros c Hc. apply in_map_iff in Hc. destruct Hc as (d & <- & Hd). apply in_rev in Hd.
    pose proof (rdigits_range _ _ _ Hn Hd). unfold is_digit. lia.
Qed.

(** C05_generic_env_accepts: the plain decimal literal of n >= 0 (within the digit limit of the interpreter) is accepted
    and n is the threshold of the long/short classification *)
Theorem generic_env_accepts md n : 0 <= n -> md = 0 \/ Z.of_nat (length (decimal_literal n)) <= md ->
  generic_period_of_env md (Some (decimal_literal n)) = Ok n /\ generic_threshold md (Some (decimal_literal n)) = Ok n /\
  forall ev lot, gl_is_long (country_period GENERIC n) ev (Some lot) = true <-> n * US_PER_DAY <= utc_us (t_ts ev) - utc_us (i_ts lot).
Proof.
  intros Hn Hlim. destruct (decimal_literal_digits n Hn) as [Hne Hd].
  destruct (generic_env_accepts_digits md (decimal_literal n) Hne Hd Hlim) as [H1 H2].
  rewrite (decimal_literal_value n Hn) in H1, H2. split; [exact H1|]. split; [exact H2|].
  intros ev lot. rewrite period_generic. apply is_long_iff.
Qed.

(** * rejections *)
Theorem generic_env_rejects_unset md : generic_period_of_env md None = Err EValue /\ generic_period_of_env md (Some []) = Err EValue.
Proof. split; reflexivity. Qed.

(** a character that is neither a digit, an underscore, a sign nor C white space, anywhere in the value *)
Theorem generic_env_rejects_non_numeric md s c :
  In c s -> is_digit c = false -> c <> 95 -> c <> 43 -> c <> 45 -> is_c_space c = false ->
  generic_period_of_env md (Some s) = Err EValue.
Proof.
  intros Hin Hnd Hnu Hnp Hnm Hns. unfold generic_period_of_env.
  destruct s as [|x t]; [reflexivity|].
  assert (E : int_of_ascii md (x :: t) = None); [|rewrite E; reflexivity].
  unfold int_of_ascii. pose proof (strip_c_keeps _ _ Hin Hns) as Hs.
  destruct (strip_c (x :: t)) as [|y r]; [destruct Hs|]. unfold split_sign.
  assert (Hbody : forall body, In c body -> digits_scan body 0 0 false = None) by (intros body Hb; exact (digits_scan_bad body 0 0 false c Hb Hnd Hnu)).
  destruct (y =? 45) eqn:E1; [|destruct (y =? 43) eqn:E2].
  - destruct Hs as [->|Hs]; [lia|]. rewrite (Hbody r Hs). reflexivity.
  - destruct Hs as [->|Hs]; [lia|]. rewrite (Hbody r Hs). reflexivity.
  - rewrite (Hbody (y :: r) Hs). reflexivity.
Qed.

(** a minus sign followed by digits of non-zero value ("-0" is accepted: it is 0) *)
Theorem generic_env_rejects_negative md s : s <> [] -> all_digits s -> 0 < digits_value s ->
  generic_period_of_env md (Some (45 :: s)) = Err EValue.
Proof.
  intros Hne Hd Hpos. unfold generic_period_of_env, int_of_ascii.
  assert (Hstrip : strip_c (45 :: s) = 45 :: s).
  { unfold strip_c. rewrite (lstrip_c_id (45 :: s)) by reflexivity.
    rewrite (lstrip_c_id (rev (45 :: s))); [apply rev_involutive|].
    destruct (rev (45 :: s)) as [|c t] eqn:E; [exact I|].
    assert (Hin : In c (45 :: s)) by (apply in_rev; rewrite E; left; reflexivity).
    destruct Hin as [<-|Hin]; [reflexivity|apply digit_not_space, Hd, Hin]. }
  rewrite Hstrip. unfold split_sign. rewrite Z.eqb_refl.
  rewrite (digits_scan_digits s 0 0 false Hd (or_introl Hne)). fold (digits_value s).
  destruct (limit_ok md _); [|reflexivity].
  assert (E : (- digits_value s <? 0) = true) by lia. rewrite E. reflexivity.
Qed.

(** more digits than the interpreter's limit *)
Theorem generic_env_rejects_too_long md s : s <> [] -> all_digits s -> 0 < md < Z.of_nat (length s) ->
  generic_period_of_env md (Some s) = Err EValue.
Proof.
  intros Hne Hd Hlim. unfold generic_period_of_env, int_of_ascii. rewrite (strip_c_digits s Hd).
  destruct s as [|c t]; [congruence|]. unfold split_sign.
  pose proof (Hd c (or_introl eq_refl)) as Hc. unfold is_digit in Hc.
  assert (E1 : (c =? 45) = false) by lia. assert (E2 : (c =? 43) = false) by lia. rewrite E1, E2.
  rewrite (digits_scan_digits (c :: t) 0 0 false Hd (or_introl Hne)).
  assert (EL : limit_ok md (0 + Z.of_nat (length (c :: t))) = false) by (unfold limit_ok; lia). rewrite EL. reflexivity.
Qed.

(** exactly when a value is accepted *)
Theorem generic_env_ok_iff md v n :
  generic_period_of_env md v = Ok n <-> exists s, v = Some s /\ s <> [] /\ int_of_ascii md s = Some n /\ 0 <= n.
Proof.
  unfold generic_period_of_env. split.
  - destruct v as [[|c t]|]; try discriminate. destruct (int_of_ascii md (c :: t)) as [p|] eqn:E; [|discriminate].
    destruct (p <? 0) eqn:En; [discriminate|]. intros [= <-]. exists (c :: t). repeat split; try assumption; [discriminate|lia].
  - intros (s & -> & Hne & Hi & Hn). destruct s as [|c t]; [congruence|]. rewrite Hi.
    assert (E : (n <? 0) = false) by lia. rewrite E. reflexivity.
Qed.

(** * examples (the strings of the correspondence stream of harness/props/c05.py), with the default digit limit 4300 *)
Definition s365 : str := [51; 54; 53].
Example env_examples :
  decimal_literal 365 = s365 /\ decimal_literal 0 = [48] /\
  generic_threshold 4300 (Some s365) = Ok 365 /\
  generic_threshold 4300 (Some [48]) = Ok 0 /\
  generic_threshold 4300 (Some [43; 55]) = Ok 7 /\                        (* "+7" *)
  generic_threshold 4300 (Some [32; 52; 50; 32]) = Ok 42 /\               (* " 42 " *)
  generic_threshold 4300 (Some [9; 52; 50; 10]) = Ok 42 /\                (* "\t42\n" *)
  generic_threshold 4300 (Some [49; 95; 48; 48; 48]) = Ok 1000 /\         (* "1_000" *)
  generic_threshold 4300 (Some [48; 48; 48; 49; 50]) = Ok 12 /\           (* "00012" *)
  generic_threshold 4300 (Some [45; 48]) = Ok 0 /\                        (* "-0" *)
  generic_threshold 4300 (Some [49; 95; 95; 48]) = Err EValue /\          (* "1__0" *)
  generic_threshold 4300 (Some [95; 49]) = Err EValue /\                  (* "_1" *)
  generic_threshold 4300 (Some [49; 95]) = Err EValue /\                  (* "1_" *)
  generic_threshold 4300 (Some [48; 120; 49; 48]) = Err EValue /\         (* "0x10" *)
  generic_threshold 4300 (Some [49; 101; 51]) = Err EValue /\             (* "1e3" *)
  generic_threshold 4300 (Some [49; 46; 53]) = Err EValue /\              (* "1.5" *)
  generic_threshold 4300 (Some [45; 49]) = Err EValue /\                  (* "-1" *)
  generic_threshold 4300 (Some [43; 32; 49]) = Err EValue /\              (* "+ 1" *)
  generic_threshold 4300 (Some [49; 32; 50]) = Err EValue /\              (* "1 2" *)
  generic_threshold 4300 (Some [32]) = Err EValue /\                      (* " " *)
  generic_threshold 4300 (Some [28; 52; 50]) = Err EValue /\              (* "\x1c42": not white space for int() of an ASCII string *)
  generic_threshold 4300 (Some [97; 98; 99]) = Err EValue /\              (* "abc" *)
  generic_threshold 4300 (Some []) = Err EValue /\ generic_threshold 4300 None = Err EValue.
Proof. vm_compute. repeat split. Qed.

Example accepts_instance := generic_env_accepts 4300 365 ltac:(lia) ltac:(right; vm_compute; discriminate).
Example rejects_instances :
  generic_period_of_env 4300 (Some [97; 98; 99]) = Err EValue /\ generic_period_of_env 4300 (Some [45; 51; 54; 53]) = Err EValue.
Proof.
  split.
  - apply (generic_env_rejects_non_numeric 4300 [97; 98; 99] 97); [left; reflexivity| | | | |]; (reflexivity || discriminate).
  - apply (generic_env_rejects_negative 4300 s365); [discriminate| |vm_compute; reflexivity].
    intros c Hc. repeat (destruct Hc as [<-|Hc]; [reflexivity|]). destruct Hc.
Qed.
(** the digit limit: 4301 nines are rejected under the default limit and accepted without one *)
Example limit_instance :
  generic_period_of_env 4300 (Some (repeat 57 4301)) = Err EValue /\
  (exists n, generic_period_of_env 0 (Some (repeat 57 4301)) = Ok n) /\
  (exists n, generic_period_of_env 4300 (Some (repeat 57 4300)) = Ok n).
Proof.
  assert (Hd : forall k, all_digits (repeat 57 k)) by (intros k c Hc; apply repeat_spec in Hc; subst c; reflexivity).
  split; [|split].
  - apply generic_env_rejects_too_long; [discriminate|apply Hd|rewrite repeat_length; lia].
  - eexists. apply (generic_env_accepts_digits 0 (repeat 57 4301)); [discriminate|apply Hd|left; reflexivity].
  - eexists. apply (generic_env_accepts_digits 4300 (repeat 57 4300)); [discriminate|apply Hd|right; rewrite repeat_length; lia].
Qed.
