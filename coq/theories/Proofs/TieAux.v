(** Shared by the source-tie proofs (BalanceGenReplay, ComputedGenYearly, ComputedGenSold): a fold does not see which of two
    pointwise equal step functions it runs. *)
From Coq Require Import List.

Lemma fold_left_ext {A B} (f g : A -> B -> A) (l : list B) (a : A) :
  (forall x y, f x y = g x y) -> fold_left f l a = fold_left g l a.
Proof. intros H; revert a; induction l as [|x l IH]; intros a; simpl; [reflexivity|]. rewrite H. apply IH. Qed.
