(** C08 on the whole computation: [compute] / [compute_tax] fail with the negative-balance error exactly because of an
    overdraft, at its first occurrence, and the account of the error message is the overdrawn one. *)
From Coq Require Import List ZArith Bool Lia.
From RP2V Require Import Base.Prelude Base.Assoc Base.Sorting Base.Dec Base.Time Model.Types Model.Generated Model.Txn
  Model.Matcher Model.MatchSpec Model.MatchWf Model.Pipeline Model.Computed Model.ComputedSpec
  Proofs.YearlyProofs Proofs.BalanceProofs Proofs.C08Proofs Proofs.NumberingProofs Proofs.MatcherProps Proofs.L4Examples.
Import ListNotations.
Open Scope Z_scope.

Lemma sold_err_kind from_day to_day l : forall acc e, fold_left (sold_pct_add from_day to_day) l acc = Err e ->
  (exists e0, acc = Err e0 /\ e0 = e) \/ e = EInternal.
Proof.
  induction l as [|g l IH]; intros acc e H; cbn [fold_left] in H; [left; exists e; auto|].
  destruct (IH _ _ H) as [(e0 & E & <-)|Hk]; [|right; exact Hk].
  unfold sold_pct_add in E. destruct acc as [m|e1]; [|left; exists e1; split; [reflexivity|congruence]].
  right. destruct (g_lot g) as [a|]; [|discriminate].
  destruct ((local_day (i_ts a) <? from_day) || (to_day <? local_day (i_ts a))); [discriminate|].
  destruct (gl_lot_pct _ _ _); [discriminate|congruence].
Qed.

(** the negative-balance error of the whole aggregation can only come from the balance replay *)
Theorem compute_negbal_from_balances : forall period from_day to_day allow exs hos t fs,
  compute period from_day to_day allow exs hos t fs = Err ENegBalance ->
  balances allow to_day exs hos t = Err ENegBalance /\ allow = false.
Proof.
  intros period from_day to_day allow exs hos t fs. unfold compute.
  destruct (taxable_events t) as [evs|e0] eqn:E0.
  2:{ unfold taxable_events in E0. destruct (has_dup _); [|discriminate]. injection E0 as <-. discriminate. }
  destruct (resolve_all evs (t_ins t) fs) as [gls0|]; [|discriminate].
  destruct (numbering to_day _) as [[[[evf lotf] evt] lott]|e1] eqn:E1.
  2:{ rewrite (numbering_err_kind _ _ _ E1). discriminate. }
  destruct (yearly_list period to_day _ _) as [yl|e2] eqn:E2.
  2:{ unfold yearly_list in E2. fold (lines period (take_until g_day to_day (sort_by (fun g => t_us (g_ev g)) gls0))) in E2.
      destruct (lines period _) as [m|e3] eqn:E3; [discriminate|]. injection E2 as <-. rewrite (lines_err _ _ _ E3). discriminate. }
  destruct (balances allow to_day exs hos t) as [bl|e3] eqn:E3.
  - destruct (price_per_unit to_day (t_ins t)) as [ppu|e4] eqn:E4.
    2:{ unfold price_per_unit in E4. destruct (take_until _ _ _); [discriminate|]. destruct (ddiv _ _); [discriminate|]. injection E4 as <-. discriminate. }
    destruct (fold_left (sold_pct_add from_day to_day) _ (Ok [])) as [sold|e5] eqn:E5; [discriminate|].
    destruct (sold_err_kind _ _ _ _ _ E5) as [(e0 & Hx & _)| ->]; discriminate.
  - intros [= ->]. destruct (c08_only_error _ _ _ _ _ _ E3) as [_ ->]. auto.
Qed.

(** "rejected with an error naming the account", for the whole aggregation *)
Theorem compute_names_overdrawn_account : forall period from_day to_day allow exs hos t fs, holders_ok t ->
  compute period from_day to_day allow exs hos t fs = Err ENegBalance ->
  allow = false /\
  exists p x r ex ho, take_until txn_day to_day (replay_order t) = p ++ x :: r /\
    debited x = Some (ex, ho) /\ balance_after ex ho (p ++ [x]) < -5 /\
    (forall p1 y p2, p = p1 ++ y :: p2 -> ~ overdrawn_at 5 p1 y) /\
    first_negative false {| bs_acq := []; bs_sent := []; bs_recv := []; bs_final := [] |}
                   (take_until txn_day to_day (replay_order t)) = Some (ex, ho).
Proof.
  intros period from_day to_day allow exs hos t fs Hok H. destruct (compute_negbal_from_balances _ _ _ _ _ _ _ _ H) as [HB ->].
  split; [reflexivity|]. exact (c08_first_overdraft to_day exs hos t Hok _ HB).
Qed.

(** a history that is fine apart from an overdraft: rejected without -n, computed with -n *)
Theorem compute_rejects_overdraft : forall period from_day to_day exs hos t fs cd, holders_ok t ->
  compute period from_day to_day true exs hos t fs = Ok cd ->
  (compute period from_day to_day false exs hos t fs = Err ENegBalance <->
   exists p x r, take_until txn_day to_day (replay_order t) = p ++ x :: r /\ overdrawn_at 5 p x) /\
  ((forall p x r, take_until txn_day to_day (replay_order t) = p ++ x :: r -> ~ overdrawn_at 5 p x) ->
   compute period from_day to_day false exs hos t fs = Ok cd).
Proof.
  intros period from_day to_day exs hos t fs cd Hok H. destruct (c08_compute_switch _ _ _ _ _ _ _ _ H) as [S1 S2]. split; [split|].
  - intros HE. apply (c08_rejected_iff to_day exs hos t Hok). apply (compute_negbal_from_balances _ _ _ _ _ _ _ _ HE).
  - intros HO. apply (S2 ENegBalance). apply (c08_rejected_iff to_day exs hos t Hok). exact HO.
  - intros HN. destruct (c08_never_overdrawn_accepted to_day exs hos t Hok HN) as (bl & Hbl). exact (S1 bl Hbl).
Qed.

(** the same for matching + aggregation on a well-formed history: the matcher never reports a negative balance *)
Theorem compute_tax_names_overdrawn_account : forall period from_day to_day allow exs hos sched t evs, holders_ok t ->
  taxable_events t = Ok evs -> wf (t_ins t) sched (map event_of evs) ->
  compute_tax period from_day to_day allow exs hos sched t = Err ENegBalance ->
  allow = false /\
  (exists fs, fractions_of gen_always_repush sched t = Ok fs) /\
  exists p x r ex ho, take_until txn_day to_day (replay_order t) = p ++ x :: r /\
    debited x = Some (ex, ho) /\ balance_after ex ho (p ++ [x]) < -5 /\
    (forall p1 y p2, p = p1 ++ y :: p2 -> ~ overdrawn_at 5 p1 y) /\
    first_negative false {| bs_acq := []; bs_sent := []; bs_recv := []; bs_final := [] |}
                   (take_until txn_day to_day (replay_order t)) = Some (ex, ho).
Proof.
  intros period from_day to_day allow exs hos sched t evs Hok HE WF. unfold compute_tax.
  destruct (fractions_of gen_always_repush sched t) as [fs|e] eqn:F.
  - intros H. destruct (compute_names_overdrawn_account _ _ _ _ _ _ _ _ Hok H) as [Ha Hx]. split; [exact Ha|]. split; [exists fs; reflexivity|exact Hx].
  - unfold fractions_of in F. rewrite HE in F. destruct (m_total _ _ _ WF) as [(fs & Hfs)|Hx]; [rewrite F in Hfs; discriminate Hfs|]. rewrite F in Hx. injection Hx as ->. intros HH. discriminate HH.
Qed.

(** non-vacuity: history B of L4Examples.v (buy 1, sell 2, buy 5) *)
Definition fsB_allow : list fraction := [].
Example tB_compute_rejected : compute 365 (-100000) 100000 false exsA hosA tB [] = Err ENegBalance.
Proof. vm_compute. reflexivity. Qed.
Example tB_compute_named := compute_names_overdrawn_account 365 (-100000) 100000 false exsA hosA tB [] tB_holders_ok tB_compute_rejected.
Example tB_account_name : acct_name exsA hosA 0 0 = [69; 48; 95; 72; 48].   (* "E0_H0" *)
Proof. reflexivity. Qed.
