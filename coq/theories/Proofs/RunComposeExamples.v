(** Non-vacuity of the composition theorems (Proofs/RunCompose.v) and the refutation witnesses of findings F12 / F7 at the
    composed level, decided by [vm_compute].  Inputs are the encoded examples of the per-report layers:
    [ex2_code] (Proofs/TaxReportProofs.v: assets AAA, BBB), [w_holders], [w_f2], [wenv] (Proofs/FullReportWitness.v). *)
From RP2V Require Import Base.Prelude Base.Time Base.Dec Base.Sorting Base.Assoc Model.Types Model.Generated Model.Txn
  Model.Matcher Model.Pipeline Model.Computed Model.Grid Model.ReportInput Model.FullReport Model.TaxReport Model.OpenPos Model.JpReport
  Model.MainRun Model.RunCompose.
From RP2V Require Import Proofs.FullReportProofs Proofs.FullReportWitness Proofs.TaxReportProofs Proofs.RunLemmas Proofs.C16Proofs Proofs.RunCompose.
Open Scope Z_scope.

(** environment: English open-positions / JP tables ([op_lang] = 3 for en_IE), the witness full-report template sizes *)
Definition wv (op_lang : Z) : renv := {| rv_op_lang := op_lang; rv_jp_lang := 0; rv_fenv := wenv |}.

(** US, fifo, no dates.  AAA: BUY 2 @100 (2020-01-01), SELL 1 @200 (2021-03-01); BBB: the same + INTEREST 0.5 @150 (2021-02-01) *)
Definition ex2_i : rinput := Eval vm_compute in match rd_rinput ex2_code with Some (Ok i, _) => i | _ => blank_input end.
Definition with_country (c : country) (i : rinput) : rinput :=
  {| rp_country := c; rp_period := rp_period i; rp_from := rp_from i; rp_to := rp_to i; rp_allow := rp_allow i;
     rp_exchanges := rp_exchanges i; rp_holders := rp_holders i; rp_sched := rp_sched i; rp_assets := rp_assets i |}.
Definition ex2_ie : rinput := with_country IE ex2_i.
Definition cfg2 : config := {| cf_assets := [s_BBB; s_AAA]; cf_sched := [] |}.

Example ex2_decodes : rd_rinput ex2_code = Some (Ok ex2_i, []) /\ map ra_name (rp_assets ex2_i) = [s_AAA; s_BBB].
Proof. vm_compute. split; reflexivity. Qed.

(** the hypotheses of [run_reports_total] hold for the two-asset input under rp2_us and rp2_ie ... *)
Example ex2_us_hyps : (exists cs, computed_all ex2_i (rp_assets ex2_i) = Ok cs /\ length cs = 2%nat) /\ reports_ok_hyps (wv 0) ex2_i.
Proof. split; [eexists; split; [vm_compute; reflexivity|reflexivity]|]. apply reports_ok_b_sound. vm_compute. reflexivity. Qed.
Example ex2_ie_hyps : (exists cs, computed_all ex2_ie (rp_assets ex2_ie) = Ok cs /\ length cs = 2%nat) /\ reports_ok_hyps (wv 3) ex2_ie.
Proof. split; [eexists; split; [vm_compute; reflexivity|reflexivity]|]. apply reports_ok_b_sound. vm_compute. reflexivity. Qed.

(** ... and all reports of the country come out, in discovery order (3 + (2 + 2 per asset) + (legend + 2 type sheets) sheets) *)
Example ex2_us_reports : exists l, run_reports US (wv 0) ex2_i = Ok l /\
  map (fun gs => (fst gs, length (snd gs))) l = [(GOpenPositions, 3%nat); (GFullReport, 6%nat); (GTaxUS, 3%nat)].
Proof. eexists. vm_compute. split; reflexivity. Qed.
Example ex2_ie_reports : exists l, run_reports IE (wv 3) ex2_ie = Ok l /\
  map (fun gs => (fst gs, length (snd gs))) l = [(GOpenPositions, 3%nat); (GFullReport, 6%nat); (GTaxIE, 3%nat)].
Proof. eexists. vm_compute. split; reflexivity. Qed.

(** the facts MainRun needs, as computed from the rinput *)
Example ex2_derived_facts :
  map (fun f => (af_name f, af_present f, af_negative f, af_event_types f, af_hidden_year f, af_holders f)) (inp_of_rinput ex2_i) =
  [(s_AAA, true, false, [SELL], false, 1); (s_BBB, true, false, [INTEREST; SELL], false, 1)].
Proof. vm_compute. reflexivity. Qed.

(** the hypotheses of [run_total_composed] hold for default options of rp2_us with both assets configured (in any order) *)
Example ex2_run_matches : supported US opts0 /\ run_matches US opts0 cfg2 ex2_i /\
  (o_method opts0 = None \/ cf_sched cfg2 = []) /\ Forall (fun e => str_in (snd e) method_plugins = true) (cf_sched cfg2).
Proof.
  split; [exact (proj1 run_total_example)|]. split; [|split; [left; reflexivity|constructor]].
  constructor; try reflexivity.
  cbn. constructor; [intros [H|[]]; discriminate H|]. constructor; [intros []|constructor].
Qed.

Example ex2_run_total : exists files l,
  run US opts0 cfg2 (inp_of_rinput ex2_i) = (0, files) /\ length files = 3%nat /\
  run_reports US (wv 0) ex2_i = Ok l /\ map fst l = discovery US.
Proof.
  destruct ex2_run_matches as (S & M & V1 & V2). destruct ex2_us_hyps as ((cs & HC & _) & H).
  destruct (run_total_composed US opts0 cfg2 (wv 0) ex2_i cs S M V1 V2 HC H) as (R & l & E1 & E2 & _).
  eexists. exists l. split; [exact R|]. split; [reflexivity|]. split; assumption.
Qed.

(** ---- F12 at the composed level: 22 holders with a balance.  open_positions is written, then the full report dies with
    IndexError (the Tax sheet overflows), the tax report is never started; MainRun on the derived facts says the same: exit 1,
    one file left behind.  Everything else the theorems assume holds for this input ([side_hyps_b]). *)
Theorem compose_refuted_22_holders : exists sheets files,
  run_reports_trace US (wv 0) (w_holders 22) = ([(GOpenPositions, sheets)], Some (GFullReport, GFIndexError)) /\
  run_reports US (wv 0) (w_holders 22) = Err EInternal /\
  map (fun ac => holders_with_balance (w_holders 22) (snd ac)) (computed_list (w_holders 22)) = [22] /\
  side_hyps_b (wv 0) (w_holders 22) = true /\
  generator_fails_on_input GFullReport (inp_of_rinput (w_holders 22)) = true /\
  run US opts0 cfg0 (inp_of_rinput (w_holders 22)) = (1, files) /\ length files = 1%nat.
Proof. do 2 eexists. vm_compute. repeat split; reflexivity. Qed.

(** with 21 holders the same input goes through *)
Example compose_21_holders_fit : reports_ok_b (wv 0) (w_holders 21) = true /\
  gens_ok US (wv 0) (w_holders 21) = [(GOpenPositions, true); (GFullReport, true); (GTaxUS, true)].
Proof. split; vm_compute; reflexivity. Qed.

(** ---- F7 at the composed level: rp2_jp with both dates (BUY 2020-01-01, SELL 2021-03-01; window 2021-01-01 .. 2021-12-31):
    open_positions and the full report are written, then the JP generator refuses *)
Definition w_jp (from_day to_day : Z) : rinput :=
  {| rp_country := JP; rp_period := 365; rp_from := from_day; rp_to := to_day; rp_allow := false;
     rp_exchanges := [[67]]; rp_holders := [[66]]; rp_sched := [(1970, Fifo)]; rp_assets := rp_assets w_f2 |}.
Definition o_jp_both : options :=
  {| o_method := None; o_lang := Some s_en; o_from := 18628; o_to := 18992; o_asset := None; o_neg := false; o_prefix := []; o_plugin := false |}.

Theorem compose_refuted_jp_from_and_to : exists s1 s2 files,
  run_reports_trace JP (wv 0) (w_jp 18628 18992) = ([(GOpenPositions, s1); (GFullReport, s2)], Some (GTaxJP, GFErr EInternal)) /\
  run_reports JP (wv 0) (w_jp 18628 18992) = Err EInternal /\
  side_hyps_b (wv 0) (w_jp 18628 18992) = true /\
  run JP o_jp_both cfg0 (inp_of_rinput (w_jp 18628 18992)) = (1, files) /\ length files = 2%nat.
Proof. do 3 eexists. vm_compute. repeat split; reflexivity. Qed.

(** with only the from-date all three reports are produced *)
Example compose_jp_from_only : reports_ok_b (wv 0) (w_jp 18628 ReportInput.MAX_DAY) = true /\
  gens_ok JP (wv 0) (w_jp 18628 ReportInput.MAX_DAY) = [(GOpenPositions, true); (GFullReport, true); (GTaxJP, true)].
Proof. split; vm_compute; reflexivity. Qed.
