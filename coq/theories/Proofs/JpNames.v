(** Sheet names "<asset>_<year>": distinct (asset, year) pairs give distinct names, for the years a
    Python datetime can hold (1..9999). *)
From Coq Require Import List ZArith Bool Lia ZifyBool.
From RP2V Require Import Base.Prelude Model.Types Model.Generated Model.Grid Model.JpReport.
Import ListNotations.
Open Scope Z_scope.

Definition Z_of_digits (s : str) : Z := fold_left (fun acc c => acc * 10 + (c - 48)) s 0.
Definition year_range : list Z := map Z.of_nat (seq 1 (Z.to_nat 9999)).

Lemma year_digits_ok :
  forallb (fun y => negb (existsb (Z.eqb 95) (str_of_Z y)) && (Z_of_digits (str_of_Z y) =? y)) year_range = true.
Proof. vm_compute. reflexivity. Qed.

Lemma in_year_range y : 1 <= y <= 9999 -> In y year_range.
Proof.
  intros H. unfold year_range. apply in_map_iff. exists (Z.to_nat y). split; [lia|]. apply in_seq. lia.
Qed.

Lemma year_digits y : 1 <= y <= 9999 -> ~ In 95 (str_of_Z y) /\ Z_of_digits (str_of_Z y) = y.
Proof.
  intros H. pose proof year_digits_ok as F. rewrite forallb_forall in F. specialize (F y (in_year_range y H)).
  apply andb_true_iff in F. destruct F as [F1 F2]. split; [|lia].
  intros Hin. apply negb_true_iff in F1.
  assert (existsb (Z.eqb 95) (str_of_Z y) = true) by (apply existsb_exists; exists 95; split; [exact Hin|reflexivity]).
  congruence.
Qed.

Lemma sep_split (a1 a2 d1 d2 : list Z) :
  ~ In 95 d1 -> ~ In 95 d2 -> a1 ++ 95 :: d1 = a2 ++ 95 :: d2 -> a1 = a2 /\ d1 = d2.
Proof.
  revert a2; induction a1 as [|x a1 IH]; intros [|x2 a2] H1 H2 E; cbn [app] in E.
  - inversion E. auto.
  - inversion E; subst. exfalso. apply H1. apply in_or_app. right. left. reflexivity.
  - inversion E; subst. exfalso. apply H2. apply in_or_app. right. left. reflexivity.
  - inversion E; subst. destruct (IH a2 H1 H2 H3) as [-> ->]. auto.
Qed.

(** the translated format of the shipped languages is "<prefix>{}_{}" *)
Lemma name_fmt_shape lang : exists pre, gen_jp_name_fmt lang = (pre, [95], []).
Proof. unfold gen_jp_name_fmt. destruct (lang =? 0); eexists; reflexivity. Qed.

Lemma tax_sheet_name_inj lang a1 y1 a2 y2 :
  1 <= y1 <= 9999 -> 1 <= y2 <= 9999 ->
  tax_sheet_name lang a1 y1 = tax_sheet_name lang a2 y2 -> a1 = a2 /\ y1 = y2.
Proof.
  intros R1 R2. unfold tax_sheet_name. destruct (name_fmt_shape lang) as [pre ->].
  rewrite !app_nil_r. intros E. apply app_inv_head in E.
  destruct (year_digits y1 R1) as [N1 D1]. destruct (year_digits y2 R2) as [N2 D2].
  cbn [app] in E. apply sep_split in E; auto. destruct E as [-> E]. split; [reflexivity|]. congruence.
Qed.
