(** Source tie of balance.py, second half: the list the replay loop walks (concatenation order, sort, to-date cut) and
    BalanceSet.__init__ as a whole, for the tables generated from the CURRENT source.  See Proofs/BalanceGenProofs.v. *)
From Coq Require Import List ZArith Bool Lia.
From RP2V Require Import Base.Prelude Base.Time Base.Dec Base.Sorting Base.Assoc Model.Types Model.Generated Model.GeneratedTie
  Model.Txn Model.Matcher Model.Pipeline Model.Computed Model.BalanceGen Proofs.TieAux Proofs.BalanceGenProofs.
Import ListNotations.
Open Scope Z_scope.

(** the list the loop walks: in + intra + out, sorted by instant, cut by `break` at the first local date after to_date *)
Lemma bal_replay_gen_agrees (to_day : Z) (t : txs) :
  bal_replay_gen to_day t =
  take_until (fun x => local_day (t_ts x)) to_day (sort_by t_us (map TIn (t_ins t) ++ map TIntra (t_intras t) ++ map TOut (t_outs t))).
Proof.
  unfold bal_replay_gen. cbv [gen_bal_cut gen_bal_concat flat_map bal_list_of bal_cut_day_of].
  rewrite ?app_nil_r. reflexivity.
Qed.

(** BalanceSet.__init__ *)
Lemma balances_gen_agrees (allow : bool) (to_day : Z) (exs hos : list str) (t : txs) :
  balances_gen allow to_day exs hos t = balances allow to_day exs hos t.
Proof.
  unfold balances_gen, balances. rewrite bal_replay_gen_agrees.
  rewrite (fold_left_ext (bal_step_gen allow) (bal_step allow)) by (intros; apply bal_step_gen_agrees).
  reflexivity.
Qed.
