(** C08: the overdraft guard of [balances] / [compute] in the vocabulary of Model/ComputedSpec.v
    (running balances of (exchange, holder) accounts over prefixes of the replay order),
    derived from the rejection lemmas of BalanceProofs.v. *)
From Coq Require Import List ZArith Bool Lia Permutation Sorted ZifyBool.
From RP2V Require Import Base.Prelude Base.Assoc Base.Sorting Base.Dec Base.Time Model.Types Model.Generated Model.Txn
  Model.Pipeline Model.Computed Model.ComputedSpec Proofs.SortingProofs Proofs.AssocProofs Proofs.FilterProofs
  Proofs.BalanceProofs Proofs.ComputedProofs Proofs.C07Proofs Proofs.L4Examples.
Import ListNotations.
Open Scope Z_scope.

Lemma same_acct_refl ex ho : same_acct ex ho ex ho = true.
Proof. unfold same_acct. rewrite !Z.eqb_refl. reflexivity. Qed.
Lemma same_acct_eq ex ho ex' ho' : same_acct ex ho ex' ho' = true -> ex = ex' /\ ho = ho'.
Proof. unfold same_acct. lia. Qed.
Lemma same_acct_sym ex ho ex' ho' : same_acct ex ho ex' ho' = same_acct ex' ho' ex ho.
Proof. unfold same_acct. rewrite (Z.eqb_sym ex), (Z.eqb_sym ho). reflexivity. Qed.

Lemma balance_after_snoc ex ho p x :
  balance_after ex ho (p ++ [x]) = balance_after ex ho p + acquired_by ex ho x + received_by ex ho x - sent_by ex ho x.
Proof. unfold balance_after. rewrite !map_app, !sumZ_app. cbn [map sumZ]. lia. Qed.

(** the balance the code tests after a debit is the running balance of the debited account *)
Lemma debited_balance_after allow p s x :
  (forall y, In y (p ++ [x]) -> txn_holders_ok y) -> run allow p = Ok s ->
  debited_balance s x = match debited x with Some (ex, ho) => Some (balance_after ex ho (p ++ [x])) | None => None end.
Proof.
  intros Hok Hs. destruct (bal_run_spec allow p s Hs) as [_ Hk].
  assert (Hp : forall y, In y p -> txn_holders_ok y) by (intros y Hy; apply Hok, in_or_app; left; exact Hy).
  assert (Hx : txn_holders_ok x) by (apply Hok, in_or_app; right; left; reflexivity).
  assert (Hfin : forall ex ho, holder_ok ho -> fin_get (acct_key ex ho) (bs_final s) = balance_after ex ho p).
  { intros ex ho Hho. destruct (Hk (acct_key ex ho)) as (_ & _ & _ & HF & _). rewrite HF. unfold balance_after.
    rewrite (sumZ_map_ext_in (acq_of (acct_key ex ho)) (acquired_by ex ho)) by (intros y Hy; apply acq_of_pair; auto).
    rewrite (sumZ_map_ext_in (recv_of (acct_key ex ho)) (received_by ex ho)) by (intros y Hy; apply recv_of_pair; auto).
    rewrite (sumZ_map_ext_in (sent_of (acct_key ex ho)) (sent_by ex ho)) by (intros y Hy; apply sent_of_pair; auto).
    reflexivity. }
  destruct x as [a|a|a]; cbn [debited_balance debited txn_holders_ok] in *; cbv zeta.
  - reflexivity.
  - rewrite balance_after_snoc. cbn [acquired_by received_by sent_by]. rewrite same_acct_refl, Hfin by exact Hx. f_equal. lia.
  - destruct Hx as [Hx1 Hx2]. rewrite balance_after_snoc. cbn [acquired_by received_by sent_by].
    rewrite same_acct_refl, Hfin, acct_key_same by assumption.
    rewrite (same_acct_sym (x_to_exch a)). f_equal. lia.
Qed.

(** * rejection of a replay, list level *)
Theorem run_reject_iff_overdrawn : forall l, (forall y, In y l -> txn_holders_ok y) ->
  (run false l = Err ENegBalance <-> exists p x r, l = p ++ x :: r /\ overdrawn_at 5 p x).
Proof.
  intros l Hok. rewrite bal_run_reject_num. split.
  - intros (p & x & r & s & b & Hl & Hs & Hb & Hlt). exists p, x, r. split; [exact Hl|].
    rewrite (debited_balance_after true p s x) in Hb; [|subst l; intros y Hy; apply Hok; rewrite in_app_iff in *; cbn [In] in *; tauto|exact Hs].
    unfold overdrawn_at. destruct (debited x) as [[ex ho]|]; [|discriminate]. injection Hb as <-. exact Hlt.
  - intros (p & x & r & Hl & Hov). destruct (bal_run_allow p) as [s Hs]. unfold overdrawn_at in Hov.
    destruct (debited x) as [[ex ho]|] eqn:D; [|destruct Hov].
    exists p, x, r, s, (balance_after ex ho (p ++ [x])). split; [exact Hl|]. split; [exact Hs|]. split; [|exact Hov].
    rewrite (debited_balance_after true p s x); [rewrite D; reflexivity| |exact Hs].
    subst l. intros y Hy. apply Hok. rewrite in_app_iff in *. cbn [In] in *. tauto.
Qed.

Lemma run_err_is_negbal allow l e : run allow l = Err e -> e = ENegBalance /\ allow = false.
Proof.
  intros H. split; [exact (bal_run_only_negbal_gen allow l e H)|].
  destruct allow; [|reflexivity]. destruct (bal_run_allow l) as [s Hs]. rewrite Hs in H. discriminate H.
Qed.

(** the first rejected debit and the account reported *)
Theorem run_first_overdraft : forall l e, (forall y, In y l -> txn_holders_ok y) ->
  run false l = Err e ->
  exists p x r ex ho, l = p ++ x :: r /\ debited x = Some (ex, ho) /\ balance_after ex ho (p ++ [x]) < -5 /\
    (forall p1 y p2, p = p1 ++ y :: p2 -> ~ overdrawn_at 5 p1 y) /\
    first_negative false empty_state l = Some (ex, ho).
Proof.
  intros l e Hok He.
  pose proof (first_negative_spec l empty_state) as F.
  destruct (first_negative false empty_state l) as [[ex ho]|].
  - destruct F as (p & x & r & s & Hl & Hp & Hc & Hx). change (run false p = Ok s) in Hp.
    assert (Hokp : forall y, In y (p ++ [x]) -> txn_holders_ok y)
      by (subst l; intros y Hy; apply Hok; rewrite in_app_iff in *; cbn [In] in *; tauto).
    apply bal_check_cond in Hc. unfold bal_check in Hc.
    rewrite (debited_balance_after false p s x Hokp Hp) in Hc.
    exists p, x, r, ex, ho. split; [exact Hl|].
    assert (D : debited x = Some (ex, ho)).
    { destruct x as [a|a|a]; cbn [debited] in *; [destruct Hx| |]; destruct Hx as [-> ->]; reflexivity. }
    rewrite D in Hc. apply goes_negative_iff_gen in Hc.
    split; [exact D|]. split; [exact Hc|]. split; [|reflexivity].
    intros p1 y p2 Hp1 Hov.
    assert (R : run false p = Err ENegBalance).
    { apply run_reject_iff_overdrawn.
      - intros z Hz. apply Hokp, in_or_app. left. exact Hz.
      - exists p1, y, p2. auto. }
    rewrite Hp in R. discriminate R.
  - destruct F as [s Hs]. change (run false l = Ok s) in Hs. rewrite Hs in He. discriminate He.
Qed.

(** * any account, any moment: a balance below zero can only appear at a debit of that account *)
Definition credits_nonneg (l : list txn) : Prop :=
  forall y, In y l -> match y with TIn a => 0 <= i_crypto_in a | TIntra a => 0 <= x_crypto_received a | TOut _ => True end.

Lemma sent_by_debited ex ho x : sent_by ex ho x <> 0 -> debited x = Some (ex, ho).
Proof.
  destruct x as [a|a|a]; cbn [sent_by debited]; intros H.
  - contradiction.
  - destruct (same_acct (o_exch a) (o_holder a) ex ho) eqn:E; [|contradiction].
    apply same_acct_eq in E. destruct E as [-> ->]. reflexivity.
  - destruct (same_acct (x_from_exch a) (x_from_holder a) ex ho) eqn:E; [|contradiction].
    apply same_acct_eq in E. destruct E as [-> ->]. reflexivity.
Qed.

Lemma overdrawn_moment_is_debit tol ex ho : 0 <= tol -> forall q r,
  credits_nonneg (q ++ r) -> balance_after ex ho q < - tol ->
  exists p x r', q ++ r = p ++ x :: r' /\ overdrawn_at tol p x.
Proof.
  intros Htol q. induction q as [|x q IH] using rev_ind; intros r Hc Hb.
  - unfold balance_after in Hb. cbn [map sumZ] in Hb. lia.
  - rewrite <- app_assoc in *. cbn [app] in *.
    destruct (Z_lt_dec (balance_after ex ho q) (- tol)) as [Hlt|Hge].
    + exact (IH (x :: r) Hc Hlt).
    + rewrite balance_after_snoc in Hb.
      assert (Hx : 0 <= acquired_by ex ho x /\ 0 <= received_by ex ho x).
      { assert (Hcx := Hc x (in_or_app q (x :: r) x (or_intror (or_introl eq_refl)))). clear Hc. rename Hcx into Hc.
        destruct x as [a|a|a]; cbn [acquired_by received_by]; try lia.
        - destruct (same_acct (i_exch a) (i_holder a) ex ho); lia.
        - destruct (same_acct (x_to_exch a) (x_to_holder a) ex ho); lia. }
      assert (D : debited x = Some (ex, ho)) by (apply sent_by_debited; lia).
      exists q, x, r. split; [reflexivity|]. unfold overdrawn_at. rewrite D, balance_after_snoc. lia.
Qed.

(** * the same on [balances] *)
Section OnBalances.
Variables (to_day : Z) (exs hos : list str) (t : txs).
Hypothesis Hok : holders_ok t.
Let shown := take_until txn_day to_day (replay_order t).

Lemma shown_ok : forall y, In y shown -> txn_holders_ok y.
Proof. intros y Hy. apply Hok. apply (shown_in_replay to_day). exact Hy. Qed.

Theorem c08_rejected_iff :
  balances false to_day exs hos t = Err ENegBalance <-> exists p x r, shown = p ++ x :: r /\ overdrawn_at 5 p x.
Proof. rewrite balances_err_iff. apply run_reject_iff_overdrawn. exact shown_ok. Qed.

Theorem c08_only_error : forall allow e, balances allow to_day exs hos t = Err e -> e = ENegBalance /\ allow = false.
Proof. intros allow e H. apply balances_err_iff in H. exact (run_err_is_negbal _ _ _ H). Qed.

Theorem c08_first_overdraft : forall e, balances false to_day exs hos t = Err e ->
  exists p x r ex ho, shown = p ++ x :: r /\ debited x = Some (ex, ho) /\ balance_after ex ho (p ++ [x]) < -5 /\
    (forall p1 y p2, p = p1 ++ y :: p2 -> ~ overdrawn_at 5 p1 y) /\
    first_negative false {| bs_acq := []; bs_sent := []; bs_recv := []; bs_final := [] |} shown = Some (ex, ho).
Proof. intros e H. apply balances_err_iff in H. exact (run_first_overdraft shown e shown_ok H). Qed.

(** "drops below zero by more than 1e-10 at any moment": 1e-10 = 10 grid units *)
Theorem c08_overdraft_rejected : credits_nonneg shown ->
  (exists q r ex ho, shown = q ++ r /\ balance_after ex ho q < -10) ->
  balances false to_day exs hos t = Err ENegBalance.
Proof.
  intros Hc (q & r & ex & ho & Hs & Hb). apply c08_rejected_iff.
  rewrite Hs in Hc. destruct (overdrawn_moment_is_debit 10 ex ho ltac:(lia) q r Hc Hb) as (p & x & r' & Hl & Hov).
  exists p, x, r'. split; [rewrite Hs; exact Hl|].
  unfold overdrawn_at in *. destruct (debited x) as [[ex' ho']|]; [lia|exact Hov].
Qed.

(** "A history in which no account ever goes negative is never rejected for this reason"
    (more generally: never more than 5e-11 below zero right after one of its debits) *)
Theorem c08_never_overdrawn_accepted :
  (forall p x r, shown = p ++ x :: r -> ~ overdrawn_at 5 p x) ->
  exists bl, balances false to_day exs hos t = Ok bl.
Proof.
  intros H. destruct (balances false to_day exs hos t) as [bl|e] eqn:E; [exists bl; reflexivity|].
  exfalso. destruct (c08_only_error false e E) as [-> _].
  apply c08_rejected_iff in E. destruct E as (p & x & r & Hs & Hov). exact (H p x r Hs Hov).
Qed.

Corollary c08_never_negative_accepted :
  (forall q r ex ho, shown = q ++ r -> 0 <= balance_after ex ho q) ->
  exists bl, balances false to_day exs hos t = Ok bl.
Proof.
  intros H. apply c08_never_overdrawn_accepted. intros p x r Hs Hov. unfold overdrawn_at in Hov.
  destruct (debited x) as [[ex ho]|]; [|exact Hov].
  specialize (H (p ++ [x]) r ex ho). rewrite <- app_assoc in H. specialize (H Hs). lia.
Qed.

(** "with -n the run proceeds and reports the negative balance" *)
Theorem c08_allowed_reports : exists bl, balances true to_day exs hos t = Ok bl /\
  forall b, In b bl -> b_final b = balance_after (b_exch b) (b_holder b) shown.
Proof.
  destruct (bal_run_allow (shown_txns to_day t)) as [s Hs].
  destruct (proj2 (balances_ok_iff true to_day exs hos t)) as [bl Hbl]; [exists s; exact Hs|].
  exists bl. split; [exact Hbl|]. intros b Hb.
  destruct (c07_accounts _ _ _ _ _ _ Hok Hbl) as (_ & _ & Hfl). destruct (Hfl b Hb) as (HA & HS & HR & HF).
  unfold balance_after. fold shown in HA, HS, HR. lia.
Qed.

(** when nothing is rejected the switch makes no difference *)
Theorem c08_switch_irrelevant_when_accepted : forall bl,
  balances false to_day exs hos t = Ok bl -> balances true to_day exs hos t = Ok bl.
Proof.
  intros bl. rewrite !balances_eq. destruct (run false (shown_txns to_day t)) as [s|e] eqn:E; [|discriminate].
  rewrite (run_false_true _ _ E). auto.
Qed.
End OnBalances.

(** * the same on [compute]: the guard is the only place where the switch matters *)
Theorem c08_compute_switch : forall period from_day to_day exs hos t fs cd,
  compute period from_day to_day true exs hos t fs = Ok cd ->
  (forall bl, balances false to_day exs hos t = Ok bl -> compute period from_day to_day false exs hos t fs = Ok cd) /\
  (forall e, balances false to_day exs hos t = Err e -> compute period from_day to_day false exs hos t fs = Err ENegBalance).
Proof.
  intros period from_day to_day exs hos t fs cd. unfold compute.
  destruct (taxable_events t) as [evs|e0]; [|discriminate].
  destruct (resolve_all evs (t_ins t) fs) as [gls0|]; [|discriminate].
  destruct (numbering to_day (sort_by (fun g => t_us (g_ev g)) gls0)) as [[[[evf lotf] evt] lott]|e0]; [|discriminate].
  destruct (yearly_list period to_day (year_of_day from_day) (sort_by (fun g => t_us (g_ev g)) gls0)) as [yl|e0]; [|discriminate].
  destruct (balances true to_day exs hos t) as [bl1|e0] eqn:E1; [|discriminate].
  intros H. split.
  - intros bl E0. rewrite E0. rewrite (c08_switch_irrelevant_when_accepted _ _ _ _ _ E0) in E1. injection E1 as <-. exact H.
  - intros e E0. rewrite E0. apply balances_err_iff in E0. destruct (run_err_is_negbal _ _ _ E0) as [-> _]. reflexivity.
Qed.


(** * non-vacuity: history B of L4Examples.v -- buy 1, sell 2 ten days later, buy 5 ten days after that: a transient
    overdraft of one coin that is refilled later *)
Example tB_holders_ok : holders_ok tB.
Proof.
  intros x Hx. vm_compute in Hx.
  repeat (destruct Hx as [<-|Hx]; [cbn [txn_holders_ok i_holder o_holder]; unfold holder_ok; lia|]). destruct Hx.
Qed.
Example tB_credits_nonneg : credits_nonneg (take_until txn_day 100000 (replay_order tB)).
Proof. intros y Hy. vm_compute in Hy. repeat (destruct Hy as [<-|Hy]; [vm_compute; try discriminate; exact I|]). destruct Hy. Qed.
Example tB_overdrawn : exists q r ex ho, take_until txn_day 100000 (replay_order tB) = q ++ r /\ balance_after ex ho q < -10.
Proof.
  exists (firstn 2 (take_until txn_day 100000 (replay_order tB))), (skipn 2 (take_until txn_day 100000 (replay_order tB))), 0, 0.
  split; [symmetry; apply firstn_skipn|vm_compute; reflexivity].
Qed.
Example c08_overdraft_instance : balances false 100000 exsA hosA tB = Err ENegBalance.
Proof. exact (c08_overdraft_rejected 100000 exsA hosA tB tB_holders_ok tB_credits_nonneg tB_overdrawn). Qed.
Example c08_first_instance := c08_first_overdraft 100000 exsA hosA tB tB_holders_ok ENegBalance c08_overdraft_instance.
(** final balance +4 although it was -1 in between: a check of the final balance only would accept it *)
Example tB_final_positive : exists bl, balances true 100000 exsA hosA tB = Ok bl /\ map b_final bl = [4 * U].
Proof. vm_compute. eexists. split; reflexivity. Qed.
(** with -n and the to-date between the sale and the refill the negative balance is reported *)
Example tB_negative_reported : exists bl, balances true 18015 exsA hosA tB = Ok bl /\ map b_final bl = [- U].
Proof. vm_compute. eexists. split; reflexivity. Qed.
(** history A is never overdrawn: accepted, and the switch makes no difference *)
Example c08_accepted_instance : balances false 100000 exsA hosA tA = Ok (cd_balances cdA) /\ balances true 100000 exsA hosA tA = Ok (cd_balances cdA).
Proof. vm_compute. split; reflexivity. Qed.
