(** Composition of the run model (Model/MainRun.v) with the four report models: every configured report is produced
    (Model/RunCompose.v [run_reports]), and the input facts / generator outcomes that MainRun took from outside are derived
    from the report models.  The per-report theorems (C13 / C14 / C15 / C19 / C20) are used as lemmas. *)
From Coq Require Import Permutation.
From RP2V Require Import Base.Prelude Base.Time Base.Dec Base.Sorting Base.Assoc Model.Types Model.Generated Model.Txn
  Model.Matcher Model.Pipeline Model.Computed Model.Grid Model.ReportInput Model.FullReport Model.TaxReport Model.OpenPos Model.JpReport
  Model.MainRun Model.RunCompose.
From RP2V Require Import Proofs.FullReportLayout Proofs.FullReportProofs Proofs.FullReportCompute Proofs.FullReportCapacity
  Proofs.FullReportWitness Proofs.JpProofs.
Open Scope Z_scope.

(** * A. the full report is produced: Proofs/FullReportTotal.v ([fenv_fits], [full_report_total], ...) *)
From RP2V Require Export Proofs.FullReportTotal.

(** * B. the open-positions report is produced (either shape of the code between the two passes) *)
From RP2V Require Import Proofs.OpenPosProofs Proofs.OpenPosArith.

Lemma filter_all {A} (p : A -> bool) l : (forall x, In x l -> p x = true) -> filter p l = l.
Proof.
  induction l as [|x t IH]; intros H; cbn [filter]; [reflexivity|].
  rewrite (H x (or_introl eq_refl)). f_equal. apply IH. intros y Hy. apply H. right. exact Hy.
Qed.

Lemma drop_orphans_id s : (forall ac, In ac (fp_costs s) -> orphan s ac = false) -> drop_orphans s = s.
Proof.
  intros H. unfold drop_orphans.
  rewrite (filter_nil (orphan s) (fp_costs s)) by exact H.
  rewrite (filter_all (fun ac => negb (orphan s ac)) (fp_costs s)) by (intros x Hx; rewrite (H x Hx); reflexivity).
  cbn [fold_left]. destruct s; reflexivity.
Qed.

Section OpTotal.
Variables (lang : Z) (i : rinput) (cs : list computed) (s : fpass).
Hypothesis Hn : gen_op_names lang <> None.
Hypothesis Ht : gen_op_template (country_code (rp_country i)) lang <> None.
Hypothesis Hm : method_lookup_ok (rp_sched i) = true.
Hypothesis Hf : first_pass cs = Ok s.
Hypothesis Hbal : forall a c, nth_error cs a = Some c -> asset_listed c = true -> pos_balances c <> [].
Hypothesis Hst : forall ac, In ac (fp_costs s) -> exists k, unit_style (unit_of s ac) = Ok k.

Lemma op_all_asset_ok : Forall (asset_ok s) (fp_costs s).
Proof.
  apply Forall_forall. intros ac Hin. destruct (costs_In cs s Hf ac Hin) as (c & _ & Hnth & Hl & _).
  destruct (asset_ok_of cs s Hf ac c Hin Hnth (Hbal _ _ Hnth Hl)) as (A1 & A2 & _ & _ & A5).
  unfold asset_ok. repeat split; auto. lia.
Qed.

Lemma op_no_orphans ac : In ac (fp_costs s) -> orphan s ac = false.
Proof.
  intros Hin. pose proof op_all_asset_ok as F. rewrite Forall_forall in F. destruct (F ac Hin) as (A1 & _).
  unfold orphan. rewrite A1. reflexivity.
Qed.

Lemma op_prep_same drop : prep drop s = s.
Proof. destruct drop; [|reflexivity]. apply drop_orphans_id. exact op_no_orphans. Qed.

Theorem open_positions_gen_total drop : exists sheets, open_positions_gen drop lang i cs = Ok sheets /\ length sheets = 3%nat.
Proof.
  assert (D : fp_costs s = [] \/ fp_costs s <> []) by (clear; destruct (fp_costs s); [left; reflexivity | right; discriminate]).
  destruct D as [Ec|Ec].
  - unfold open_positions_gen.
    destruct (gen_op_names lang) as [[[n1 n2] n3]|]; [|congruence].
    destruct (gen_op_template (country_code (rp_country i)) lang) as [[[d1 d2] d3]|]; [|congruence].
    rewrite Hm. cbn [negb]. rewrite Hf. fold (prep drop s). rewrite op_prep_same.
    unfold second_pass. rewrite Ec. cbn [fold_left]. eexists. split; reflexivity.
  - apply (open_positions_total_gen drop lang i cs s Hn Ht Hm Hf); rewrite op_prep_same.
    + apply (total_cost_positive cs s Hf). exact Ec.
    + apply op_all_asset_ok.
Qed.
End OpTotal.

(** * C. every configured report is produced *)
From RP2V Require Import Proofs.TaxReportProofs Proofs.RunLemmas.

(** ComputedData of every asset, as all generators receive it ([] when some asset does not compute) *)
Definition computed_list (i : rinput) : list (rasset * computed) :=
  match computed_all i (rp_assets i) with Ok l => l | Err _ => [] end.

Lemma computed_list_eq i cs : computed_all i (rp_assets i) = Ok cs -> computed_list i = cs.
Proof. unfold computed_list. intros ->. reflexivity. Qed.

(** what the per-report theorems demand besides "ComputedData exists" and the three conditions of [reports_ok_hyps]:
    - the full-report template is large enough for the input-independent cells ([fenv_fits]);
    - open positions: catalogue and template exist for the language; the single-method lookup of the MODEL succeeds (the model
      of Model/OpenPos.v still looks a one-entry schedule up under 1970); the 13-decimal comparisons of the first pass and of
      the unit-cost style are defined (sizes); every listed asset has an account with a positive balance (C15: follows from the
      C07 reconciliation, which a dust transfer fee breaks -- finding F8);
    - tax report: the row of every fraction can be built (figures and lot labels defined: [mk_items]) *)
Record reports_side_hyps (v : renv) (i : rinput) : Prop := {
  rsh_env : fenv_fits (rv_fenv v) = true;
  rsh_op_names : gen_op_names (rv_op_lang v) <> None;
  rsh_op_template : gen_op_template (country_code (rp_country i)) (rv_op_lang v) <> None;
  rsh_op_method : method_lookup_ok (rp_sched i) = true;
  rsh_op_first : exists s, first_pass (map snd (computed_list i)) = Ok s /\
                   forall ac, In ac (fp_costs s) -> exists k, unit_style (unit_of s ac) = Ok k;
  rsh_op_positive : forall a c, nth_error (map snd (computed_list i)) a = Some c -> asset_listed c = true -> pos_balances c <> [];
  rsh_items : forall g T, In g (discovery (rp_country i)) -> tax_tables_for g = Some T ->
              forall ac, In ac (computed_list i) -> exists items, mk_items T (asset_sources i ac) = Ok items }.

(** the three conditions under which the code as it is aborts or would abort: more than [max_holders] = 21 holders with a
    balance (F12), rp2_jp with both dates (F7), a fraction whose event type no taxable event can have *)
Record reports_ok_hyps (v : renv) (i : rinput) : Prop := {
  roh_holders : forall ac, In ac (computed_list i) -> holders_with_balance i (snd ac) <= max_holders;
  roh_window : ~ (rp_country i = JP /\ rp_from i <> ReportInput.MIN_DAY /\ rp_to i <> ReportInput.MAX_DAY);
  roh_types : forall ac g, In ac (computed_list i) -> In g (cd_gls (snd ac)) -> In (t_type (g_ev g)) TaxReport.taxable_types;
  roh_side : reports_side_hyps v i }.

Lemma jp_generator_country c : In GTaxJP (country_generators c) -> c = JP.
Proof. destruct c; cbn; intuition congruence. Qed.

Lemma us_legend_method sched : exists m, legend_method (tt_legend_single_by_value tax_tables_us) sched = Ok m.
Proof.
  assert (E : tt_legend_single_by_value tax_tables_us = true) by (vm_compute; reflexivity). rewrite E.
  unfold legend_method. destruct sched as [|[y m] [|]]; cbn [orb]; eexists; reflexivity.
Qed.
Lemma ie_legend_method sched : exists m, legend_method (tt_legend_single_by_value tax_tables_ie) sched = Ok m.
Proof.
  assert (E : tt_legend_single_by_value tax_tables_ie = true) by (vm_compute; reflexivity). rewrite E.
  unfold legend_method. destruct sched as [|[y m] [|]]; cbn [orb]; eexists; reflexivity.
Qed.

(** each configured generator produces its report *)
Theorem run_gen_total v i cs g :
  computed_all i (rp_assets i) = Ok cs -> reports_ok_hyps v i -> In g (discovery (rp_country i)) ->
  exists sheets, run_gen v i g = inl sheets.
Proof.
  intros HC [Hh Hw Hty [S1 S2 S3 S4 S5 S6 S7]] Hg. rewrite (computed_list_eq i cs HC) in *.
  pose proof (proj1 (proj1 (discovery_spec (rp_country i)) g) Hg) as Hcg.
  destruct g; cbn [run_gen].
  - (* open positions *)
    unfold open_positions. rewrite HC. unfold open_positions_of. destruct S5 as (s & Hf & Hst).
    destruct (open_positions_gen_total (rv_op_lang v) i (map snd cs) s S2 S3 S4 Hf S6 Hst gen_op_drop_orphans) as (sh & E & _).
    rewrite E. eexists. reflexivity.
  - (* full report *)
    destruct (full_report_total (rv_fenv v) i S1 cs HC) as (sh & E).
    + intros ac Hac. exact (Hh ac Hac).
    + rewrite E. eexists. reflexivity.
  - (* tax report us *)
    destruct (us_report_produced i cs HC (us_legend_method _) (S7 GTaxUS tax_tables_us Hg eq_refl) Hty) as (out & E).
    rewrite E. eexists. reflexivity.
  - (* tax report jp *)
    destruct (jp_report_total (rv_jp_lang v) gen_jp_years_sorted gen_jp_prev_existing_year i cs HC) as (r & E).
    + pose proof (jp_generator_country _ Hcg) as Hc.
      destruct (Z.eq_dec (rp_from i) ReportInput.MIN_DAY) as [|N1]; [left; assumption|].
      destruct (Z.eq_dec (rp_to i) ReportInput.MAX_DAY) as [|N2]; [right; assumption|].
      exfalso. apply Hw. auto.
    + rewrite E. eexists. reflexivity.
  - (* tax report ie *)
    destruct (ie_report_produced i cs HC (ie_legend_method _) (S7 GTaxIE tax_tables_ie Hg eq_refl) Hty) as (out & E).
    rewrite E. eexists. reflexivity.
Qed.

Lemma run_gens_all_ok v i : forall gs written,
  (forall g, In g gs -> exists sheets, run_gen v i g = inl sheets) ->
  exists l, run_gens v i gs written = (written ++ l, None) /\ map fst l = gs /\
            forall g sheets, In (g, sheets) l -> run_gen v i g = inl sheets.
Proof.
  induction gs as [|g gs IH]; intros written H; cbn [run_gens].
  - exists []. rewrite app_nil_r. repeat split. intros ? ? [].
  - destruct (H g (or_introl eq_refl)) as (sh & E). rewrite E.
    destruct (IH (written ++ [(g, sh)])) as (l & E1 & E2 & E3); [intros g' Hg'; apply H; right; exact Hg'|].
    exists ((g, sh) :: l). rewrite E1, <- app_assoc. cbn [app map fst]. rewrite E2. repeat split.
    intros g' sh' [X|X]; [inversion X; subst; exact E | exact (E3 _ _ X)].
Qed.

(** 1. for every country: every configured report is produced, in discovery order, none fails *)
Theorem run_reports_total : forall v i cs,
  computed_all i (rp_assets i) = Ok cs -> reports_ok_hyps v i ->
  exists l, run_reports (rp_country i) v i = Ok l /\ map fst l = discovery (rp_country i) /\
            forall g sheets, In (g, sheets) l -> run_gen v i g = inl sheets.
Proof.
  intros v i cs HC H. unfold run_reports, run_reports_trace. rewrite HC.
  destruct (run_gens_all_ok v i (discovery (rp_country i)) []) as (l & E1 & E2 & E3).
  - intros g Hg. exact (run_gen_total v i cs g HC H Hg).
  - rewrite E1. cbn [app]. exists l. auto.
Qed.

(** the same theorem with the known condition of each generator made explicit: a generator needs only ITS condition *)
Definition gen_condition_absent (i : rinput) (g : gen_id) : Prop :=
  match g with
  | GOpenPositions => True
  | GFullReport => forall ac, In ac (computed_list i) -> holders_with_balance i (snd ac) <= max_holders
  | GTaxUS | GTaxIE => forall ac g', In ac (computed_list i) -> In g' (cd_gls (snd ac)) -> In (t_type (g_ev g')) TaxReport.taxable_types
  | GTaxJP => rp_from i = ReportInput.MIN_DAY \/ rp_to i = ReportInput.MAX_DAY
  end.

Lemma conditions_of_hyps v i g : reports_ok_hyps v i -> In g (discovery (rp_country i)) -> gen_condition_absent i g.
Proof.
  intros [Hh Hw Hty _] Hg. pose proof (proj1 (proj1 (discovery_spec (rp_country i)) g) Hg) as Hcg.
  destruct g; cbn [gen_condition_absent]; auto.
  pose proof (jp_generator_country _ Hcg) as Hc.
  destruct (Z.eq_dec (rp_from i) ReportInput.MIN_DAY) as [|N1]; [left; assumption|].
  destruct (Z.eq_dec (rp_to i) ReportInput.MAX_DAY) as [|N2]; [right; assumption|].
  exfalso. apply Hw. auto.
Qed.

Theorem run_gen_total_of_condition v i cs g :
  computed_all i (rp_assets i) = Ok cs -> reports_side_hyps v i -> In g (discovery (rp_country i)) ->
  gen_condition_absent i g -> exists sheets, run_gen v i g = inl sheets.
Proof.
  intros HC [S1 S2 S3 S4 S5 S6 S7] Hg Hcond. rewrite (computed_list_eq i cs HC) in *.
  unfold gen_condition_absent in Hcond. rewrite (computed_list_eq i cs HC) in Hcond.
  destruct g; cbn [run_gen].
  - unfold open_positions. rewrite HC. unfold open_positions_of. destruct S5 as (s & Hf & Hst).
    destruct (open_positions_gen_total (rv_op_lang v) i (map snd cs) s S2 S3 S4 Hf S6 Hst gen_op_drop_orphans) as (sh & E & _).
    rewrite E. eexists. reflexivity.
  - destruct (full_report_total (rv_fenv v) i S1 cs HC Hcond) as (sh & E). rewrite E. eexists. reflexivity.
  - destruct (us_report_produced i cs HC (us_legend_method _) (S7 GTaxUS tax_tables_us Hg eq_refl) Hcond) as (out & E).
    rewrite E. eexists. reflexivity.
  - destruct (jp_report_total (rv_jp_lang v) gen_jp_years_sorted gen_jp_prev_existing_year i cs HC Hcond) as (r & E).
    rewrite E. eexists. reflexivity.
  - destruct (ie_report_produced i cs HC (ie_legend_method _) (S7 GTaxIE tax_tables_ie Hg eq_refl) Hcond) as (out & E).
    rewrite E. eexists. reflexivity.
Qed.

(** * D. MainRun's input facts and generator outcomes derived from the report models *)
From RP2V Require Import Proofs.C16Proofs Proofs.C08Proofs.

(** the options / configuration of a run and the rinput the generators receive describe the same run *)
Record run_matches (c : country) (o : options) (cf : config) (i : rinput) : Prop := {
  rm_country : rp_country i = c;
  rm_from : rp_from i = o_from o;
  rm_to : rp_to i = o_to o;
  rm_allow : rp_allow i = o_neg o;
  rm_assets : map ra_name (rp_assets i) = assets_to_process o cf;       (* -a or all configured assets, sorted *)
  rm_names : NoDup (map ra_name (rp_assets i)) }.

Lemma compute_switch_up : forall period from_day to_day exs hos t fs cd,
  compute period from_day to_day false exs hos t fs = Ok cd -> compute period from_day to_day true exs hos t fs = Ok cd.
Proof.
  intros period from_day to_day exs hos t fs cd. unfold compute.
  destruct (taxable_events t) as [evs|e0]; [|discriminate].
  destruct (resolve_all evs (t_ins t) fs) as [gls0|]; [|discriminate].
  destruct (numbering to_day (sort_by (fun g => t_us (g_ev g)) gls0)) as [[[[evf lotf] evt] lott]|e0]; [|discriminate].
  destruct (yearly_list period to_day (year_of_day from_day) (sort_by (fun g => t_us (g_ev g)) gls0)) as [yl|e0]; [|discriminate].
  destruct (balances false to_day exs hos t) as [bl|e0] eqn:E0; [|discriminate].
  rewrite (c08_switch_irrelevant_when_accepted _ _ _ _ _ E0). exact (fun H => H).
Qed.

Lemma computed_of_with i a : computed_of i a = compute_with i (rp_allow i) a.
Proof. reflexivity. Qed.

(** "the asset computes" as MainRun phrases it on the derived facts = the ComputedData of the asset exists *)
Lemma asset_computes_iff o i a : rp_allow i = o_neg o ->
  (af_present (facts_of_asset i a) && (o_neg o || negb (af_negative (facts_of_asset i a))) = true
   <-> exists c, computed_of i a = Ok c).
Proof.
  intros Ha. rewrite computed_of_with, Ha. cbn [facts_of_asset af_present af_negative].
  destruct (o_neg o).
  - rewrite orb_true_l, andb_true_r. destruct (compute_with i true a); split; intros H; try discriminate; eauto. destruct H; discriminate.
  - rewrite orb_false_l. split.
    + intros H. apply andb_true_iff in H as [H1 H2].
      destruct (compute_with i true a) as [cd|] eqn:E1; [|discriminate].
      destruct (c08_compute_switch _ _ _ _ _ _ _ _ E1) as [S1 S2]. unfold compute_with in *.
      destruct (balances false (rp_to i) (rp_exchanges i) (rp_holders i) (ra_txs a)) as [bl|e] eqn:EB.
      * exists cd. exact (S1 bl eq_refl).
      * rewrite (S2 e eq_refl) in H2. discriminate.
    + intros [c Hc]. rewrite Hc. unfold compute_with in *. rewrite (compute_switch_up _ _ _ _ _ _ _ _ Hc). reflexivity.
Qed.

Lemma facts_when_computed i a c : computed_of i a = Ok c ->
  af_name (facts_of_asset i a) = ra_name a /\ af_event_types (facts_of_asset i a) = event_types c /\
  af_hidden_year (facts_of_asset i a) = hidden_year i a c /\ af_holders (facts_of_asset i a) = holders_with_balance i c.
Proof. intros H. unfold facts_of_asset. rewrite H. cbn. auto. Qed.

(** looking an asset up by name in the derived facts finds its own facts (names are distinct) *)
Lemma facts_of_derived i : forall l a, NoDup (map ra_name l) -> In a l ->
  facts_of (map (facts_of_asset i) l) (ra_name a) = Some (facts_of_asset i a).
Proof.
  unfold facts_of. induction l as [|b l IH]; intros a Hnd Hin; [destruct Hin|].
  inversion Hnd as [|? ? Hni Hnd']; subst. cbn [map find]. cbn [facts_of_asset af_name].
  destruct Hin as [<-|Hin].
  - rewrite str_eqb_refl. reflexivity.
  - destruct (str_eqb (ra_name b) (ra_name a)) eqn:E.
    + apply str_eqb_eq in E. exfalso. apply Hni. rewrite E. apply in_map. exact Hin.
    + apply IH; assumption.
Qed.

Lemma processed_facts_derived o cf i : map ra_name (rp_assets i) = assets_to_process o cf -> NoDup (map ra_name (rp_assets i)) ->
  processed_facts o cf (inp_of_rinput i) = inp_of_rinput i.
Proof.
  intros Hn Hnd. unfold processed_facts. rewrite <- Hn. unfold inp_of_rinput.
  assert (G : forall l, (forall a, In a l -> In a (rp_assets i)) ->
              filter_map (facts_of (map (facts_of_asset i) (rp_assets i))) (map ra_name l) = map (facts_of_asset i) l).
  { induction l as [|a l IH]; intros Hl; [reflexivity|]. cbn [map filter_map].
    rewrite (facts_of_derived i (rp_assets i) a Hnd (Hl a (or_introl eq_refl))). f_equal. apply IH. intros b Hb. apply Hl. right. exact Hb. }
  apply G. auto.
Qed.

Lemma taxable_types_same : TaxReport.taxable_types = C16Proofs.taxable_types.
Proof. vm_compute. reflexivity. Qed.
Lemma max_holders_21 : max_holders = 21.
Proof. reflexivity. Qed.
Lemma day_bounds_same : MainRun.MIN_DAY = ReportInput.MIN_DAY /\ MainRun.MAX_DAY = ReportInput.MAX_DAY.
Proof. split; reflexivity. Qed.

Lemma computed_all_in i : forall l cs, computed_all i l = Ok cs ->
  forall a, In a l -> exists c, In (a, c) cs /\ computed_of i a = Ok c.
Proof.
  induction l as [|b l IH]; intros cs H a Hin; [destruct Hin|]. cbn [computed_all] in H.
  destruct (computed_of i b) as [c|] eqn:Ec; [|discriminate].
  destruct (computed_all i l) as [r|] eqn:Er; [|discriminate]. inversion H; subst.
  destruct Hin as [<-|Hin]; [exists c; split; [left; reflexivity|exact Ec]|].
  destruct (IH r eq_refl a Hin) as (c' & H1 & H2). exists c'. split; [right; exact H1|exact H2].
Qed.

(** MainRun's hypotheses about the input, on the derived facts, follow from the rinput-level ones *)
Lemma valid_run_derived c o cf v i cs :
  run_matches c o cf i -> (o_method o = None \/ cf_sched cf = []) ->
  Forall (fun e => str_in (snd e) method_plugins = true) (cf_sched cf) ->
  computed_all i (rp_assets i) = Ok cs -> reports_ok_hyps v i ->
  valid_run c o cf (inp_of_rinput i) /\ known_conditions_absent c o cf (inp_of_rinput i).
Proof.
  intros [M1 M2 M3 M4 M5 M6] V1 V2 HC [Hh Hw Hty _]. rewrite (computed_list_eq i cs HC) in *. split.
  - constructor; [exact V1|exact V2|]. rewrite <- M5. apply Forall_forall. intros n Hn.
    apply in_map_iff in Hn as (a & <- & Ha).
    destruct (computed_all_in i _ _ HC a Ha) as (cd & Hin & Hcd).
    exists (facts_of_asset i a). split; [exact (facts_of_derived i _ a M6 Ha)|].
    pose proof (proj2 (asset_computes_iff o i a M4) (ex_intro _ cd Hcd)) as Hac.
    apply andb_true_iff in Hac as [P N]. split; [exact P|]. split.
    + destruct (o_neg o); [left; reflexivity|right]. cbn [orb] in N. apply negb_true_iff in N. exact N.
    + destruct (facts_when_computed i a cd Hcd) as (_ & -> & _). unfold event_types. apply Forall_forall. intros t Ht.
      apply in_map_iff in Ht as (g & <- & Hg). rewrite <- taxable_types_same. exact (Hty (a, cd) g Hin Hg).
  - constructor.
    + intros (Hc & N1 & N2). apply Hw. rewrite M1, M2, M3. auto.
    + rewrite (processed_facts_derived o cf i M5 M6). apply Forall_forall. intros f Hf.
      unfold inp_of_rinput in Hf. apply in_map_iff in Hf as (a & <- & Ha).
      destruct (computed_all_in i _ _ HC a Ha) as (cd & Hin & Hcd).
      destruct (facts_when_computed i a cd Hcd) as (_ & _ & _ & ->). rewrite <- max_holders_21. exact (Hh (a, cd) Hin).
Qed.

(** 2. the run exits 0 with exactly the expected files, and the modelled generators produce exactly those reports; the
    facts about the input are computed from the rinput by the report models ([inp_of_rinput]) *)
Theorem run_total_composed : forall c o cf v i cs,
  supported c o -> run_matches c o cf i ->
  (o_method o = None \/ cf_sched cf = []) -> Forall (fun e => str_in (snd e) method_plugins = true) (cf_sched cf) ->
  computed_all i (rp_assets i) = Ok cs -> reports_ok_hyps v i ->
  run c o cf (inp_of_rinput i) = (0, map (output_name o (expected_label c o cf)) (discovery c)) /\
  exists l, run_reports c v i = Ok l /\ map fst l = discovery c /\
            map (fun gs => output_name o (expected_label c o cf) (fst gs)) l = snd (run c o cf (inp_of_rinput i)).
Proof.
  intros c o cf v i cs Hs M V1 V2 HC H.
  destruct (valid_run_derived c o cf v i cs M V1 V2 HC H) as [Hv Hk].
  pose proof (run_total c o cf (inp_of_rinput i) Hs Hv Hk) as R. split; [exact R|].
  destruct (run_reports_total v i cs HC H) as (l & E1 & E2 & _). rewrite (rm_country _ _ _ _ M) in *.
  exists l. split; [exact E1|]. split; [exact E2|]. rewrite R. cbn [snd]. rewrite <- E2, map_map. reflexivity.
Qed.

(** ---- generator by generator: MainRun's predicted outcome on the derived facts vs the modelled generator *)
Lemma existsb_false_iff {A} (p : A -> bool) l : existsb p l = false <-> forall x, In x l -> p x = false.
Proof.
  split.
  - intros H x Hx. destruct (p x) eqn:E; [|reflexivity]. rewrite <- H. symmetry. apply existsb_exists. eauto.
  - intros H. destruct (existsb p l) eqn:E; [|reflexivity]. apply existsb_exists in E as (x & Hx & Px). rewrite (H x Hx) in Px. discriminate.
Qed.

Lemma computed_pairs i cs : computed_all i (rp_assets i) = Ok cs ->
  forall ac, In ac cs -> In (fst ac) (rp_assets i) /\ computed_of i (fst ac) = Ok (snd ac).
Proof.
  intros HC [a c] Hin. destruct (computed_all_fst i _ _ HC) as [Hm Hc]. cbn [fst snd]. split; [|exact (Hc a c Hin)].
  rewrite <- Hm. apply (in_map fst) in Hin. exact Hin.
Qed.

Lemma us_types_are_taxable t : ttype_in t tax_us_types = true <-> In t TaxReport.taxable_types.
Proof. destruct t; vm_compute; split; intros H; try discriminate H; try reflexivity; intuition discriminate. Qed.
Lemma ie_types_are_taxable t : ttype_in t tax_ie_types = true <-> In t TaxReport.taxable_types.
Proof. destruct t; vm_compute; split; intros H; try discriminate H; try reflexivity; intuition discriminate. Qed.

Definition jp_window_rejected (o : options) (g : gen_id) : bool :=
  (gen_eqb g GTaxJP && gen_jp_rejects_from_and_to && negb (o_from o =? MainRun.MIN_DAY) && negb (o_to o =? MainRun.MAX_DAY))%bool.

Lemma types_covered_iff i cs types :
  computed_all i (rp_assets i) = Ok cs ->
  (forall t, ttype_in t types = true <-> In t TaxReport.taxable_types) ->
  (negb (forallb (types_covered types) (inp_of_rinput i)) = false <->
   forall ac g', In ac cs -> In g' (cd_gls (snd ac)) -> In (t_type (g_ev g')) TaxReport.taxable_types).
Proof.
  intros HC HT. rewrite negb_false_iff, forallb_forall. split.
  - intros H ac g' Hac Hg'. destruct (computed_pairs i cs HC ac Hac) as [Ha Hc].
    specialize (H (facts_of_asset i (fst ac)) (in_map _ _ _ Ha)). unfold types_covered in H.
    destruct (facts_when_computed i _ _ Hc) as (_ & E & _). rewrite E in H. rewrite forallb_forall in H.
    apply HT. apply H. unfold event_types. apply in_map_iff. exists g'. auto.
  - intros H f Hf. unfold inp_of_rinput in Hf. apply in_map_iff in Hf as (a & <- & Ha).
    destruct (computed_all_in i _ _ HC a Ha) as (cd & Hin & Hcd).
    destruct (facts_when_computed i a cd Hcd) as (_ & E & _). unfold types_covered. rewrite E. apply forallb_forall.
    intros t Ht. unfold event_types in Ht. apply in_map_iff in Ht as (g' & <- & Hg'). apply HT. exact (H (a, cd) g' Hin Hg').
Qed.

(** what MainRun tests about the input for generator g -- on the facts computed from the rinput -- is exactly the known
    condition of g stated on the rinput (F12 for the full report, the type tables for the tax reports, F7 for rp2_jp) *)
Theorem mainrun_condition_iff c o cf i cs g :
  run_matches c o cf i -> computed_all i (rp_assets i) = Ok cs ->
  (jp_window_rejected o g = false /\ generator_fails_on_input g (inp_of_rinput i) = false) <-> gen_condition_absent i g.
Proof.
  intros [M1 M2 M3 M4 M5 M6] HC. unfold gen_condition_absent. rewrite (computed_list_eq i cs HC).
  destruct g; unfold jp_window_rejected; cbn [generator_fails_on_input].
  - change (gen_eqb GOpenPositions GTaxJP) with false. cbn [andb]. tauto.
  - change (gen_eqb GFullReport GTaxJP) with false. cbn [andb]. rewrite summary_link_guarded. cbn [negb andb orb].
    rewrite existsb_false_iff. split.
    + intros [_ H] ac Hac. destruct (computed_pairs i cs HC ac Hac) as [Ha Hc].
      specialize (H (facts_of_asset i (fst ac)) (in_map _ _ _ Ha)).
      destruct (facts_when_computed i _ _ Hc) as (_ & _ & _ & E). rewrite E in H. apply Z.ltb_ge in H. rewrite max_holders_21. exact H.
    + intros H. split; [reflexivity|]. intros f Hf. unfold inp_of_rinput in Hf. apply in_map_iff in Hf as (a & <- & Ha).
      destruct (computed_all_in i _ _ HC a Ha) as (cd & Hin & Hcd).
      destruct (facts_when_computed i a cd Hcd) as (_ & _ & _ & E). rewrite E. apply Z.ltb_ge. rewrite <- max_holders_21. exact (H (a, cd) Hin).
  - change (gen_eqb GTaxUS GTaxJP) with false. cbn [andb].
    rewrite (types_covered_iff i cs tax_us_types HC us_types_are_taxable). tauto.
  - change (gen_eqb GTaxJP GTaxJP) with true. assert (R : gen_jp_rejects_from_and_to = true) by reflexivity. rewrite R. cbn [andb].
    rewrite <- M2, <- M3. change MainRun.MIN_DAY with ReportInput.MIN_DAY. change MainRun.MAX_DAY with ReportInput.MAX_DAY.
    split.
    + intros [H _]. destruct (rp_from i =? ReportInput.MIN_DAY) eqn:E1; [left; apply Z.eqb_eq; exact E1|].
      destruct (rp_to i =? ReportInput.MAX_DAY) eqn:E2; [right; apply Z.eqb_eq; exact E2|]. discriminate H.
    + intros [H|H]; rewrite H; split; try reflexivity; rewrite ?Z.eqb_refl; cbn [negb andb]; try reflexivity. apply andb_false_r.
  - change (gen_eqb GTaxIE GTaxJP) with false. cbn [andb].
    rewrite (types_covered_iff i cs tax_ie_types HC ie_types_are_taxable). tauto.
Qed.

Lemma run_generator_some c o lang s inp g f :
  run_generator c o lang s inp g = Some f <->
  jp_window_rejected o g = false /\ template_usable c g lang = true /\
  exists label, method_label s = Some label /\ generator_fails_on_input g inp = false /\ f = output_name o label g.
Proof.
  unfold run_generator. fold (jp_window_rejected o g).
  destruct (jp_window_rejected o g); [split; [discriminate|intros [H _]; discriminate H]|].
  destruct (template_usable c g lang); cbn [negb]; [|split; [discriminate|intros (_ & H & _); discriminate H]].
  destruct (method_label s) as [label|]; [|split; [discriminate|intros (_ & _ & l & H & _); discriminate H]].
  destruct (generator_fails_on_input g inp).
  - split; [discriminate|]. intros (_ & _ & l & _ & H & _). discriminate H.
  - split.
    + intros H. inversion H. repeat split; auto. exists label. auto.
    + intros (_ & _ & l & Hl & _ & ->). inversion Hl. reflexivity.
Qed.

(** gen_outcome_of_models, direction "predicted success => the modelled generator returns its report": MainRun's generator
    predicate is no longer an assumption about the generators; what remains assumed is [reports_side_hyps] *)
Theorem gen_outcome_of_models : forall c o cf lang s v i cs g f,
  run_matches c o cf i -> computed_all i (rp_assets i) = Ok cs -> reports_side_hyps v i -> In g (discovery c) ->
  run_generator c o lang s (inp_of_rinput i) g = Some f ->
  exists sheets, run_gen v i g = inl sheets.
Proof.
  intros c o cf lang s v i cs g f M HC HS Hg H. apply run_generator_some in H as (J & _ & label & _ & F & _).
  pose proof (proj1 (mainrun_condition_iff c o cf i cs g M HC) (conj J F)) as Hcond.
  rewrite <- (rm_country _ _ _ _ M) in Hg. exact (run_gen_total_of_condition v i cs g HC HS Hg Hcond).
Qed.

(** ... and conversely MainRun predicts success whenever the known condition of g is absent, the template is usable and the
    file-name label is defined (these two are facts of L6 alone) *)
Theorem gen_outcome_predicted : forall c o cf lang s i cs g label,
  run_matches c o cf i -> computed_all i (rp_assets i) = Ok cs ->
  template_usable c g lang = true -> method_label s = Some label -> gen_condition_absent i g ->
  run_generator c o lang s (inp_of_rinput i) g = Some (output_name o label g).
Proof.
  intros c o cf lang s i cs g label M HC HT HL Hcond. apply run_generator_some.
  destruct (proj2 (mainrun_condition_iff c o cf i cs g M HC) Hcond) as [J F]. repeat split; auto. exists label. auto.
Qed.

(** direction "the modelled generator returns its report => its known condition is absent" (hence MainRun predicts success):
    proved for open positions (no condition), the tax reports (a type without a sheet is a KeyError: C14_missing_type_fails)
    and rp2_jp (F7); for the full report (F12) only the refutation witness below is available -- that MORE than 21 holders
    always overflow the Tax sheet is not proved in general *)
Lemma us_sheet_types_taxable t : type_to_sheet tax_tables_us t <> None -> In t TaxReport.taxable_types.
Proof. destruct t; vm_compute; intros H; try (exfalso; apply H; reflexivity); intuition discriminate. Qed.
Lemma ie_sheet_types_taxable t : type_to_sheet tax_tables_ie t <> None -> In t TaxReport.taxable_types.
Proof. destruct t; vm_compute; intros H; try (exfalso; apply H; reflexivity); intuition discriminate. Qed.

Lemma tax_ok_types T i cs out : computed_all i (rp_assets i) = Ok cs -> tax_report T i = Ok out ->
  forall ac g, In ac cs -> In g (cd_gls (snd ac)) -> type_to_sheet T (t_type (g_ev g)) <> None.
Proof.
  intros HC HO ac g Hac Hg Hnone.
  assert (Hin : In g (map rs_gl (all_sources i cs))).
  { rewrite all_sources_gls. apply in_flat_map. exists ac. auto. }
  apply in_map_iff in Hin as (src & <- & Hsrc).
  destruct (missing_type_fails T i cs HC (ex_intro _ src (conj Hsrc Hnone))) as (e & He). rewrite He in HO. discriminate.
Qed.

Theorem model_ok_condition : forall v i cs g sheets,
  computed_all i (rp_assets i) = Ok cs -> g <> GFullReport -> run_gen v i g = inl sheets -> gen_condition_absent i g.
Proof.
  intros v i cs g sheets HC Hg H. unfold gen_condition_absent. rewrite (computed_list_eq i cs HC).
  destruct g; cbn [run_gen] in H; [exact I|congruence| | |].
  - destruct (tax_report tax_tables_us i) as [out|] eqn:E; [|discriminate]. intros ac g' Hac Hg'.
    apply us_sheet_types_taxable. exact (tax_ok_types _ i cs out HC E ac g' Hac Hg').
  - unfold jp_report in H. rewrite HC in H.
    destruct (rp_from i =? ReportInput.MIN_DAY) eqn:E1; [left; apply Z.eqb_eq; exact E1|].
    destruct (rp_to i =? ReportInput.MAX_DAY) eqn:E2; [right; apply Z.eqb_eq; exact E2|]. discriminate H.
  - destruct (tax_report tax_tables_ie i) as [out|] eqn:E; [|discriminate]. intros ac g' Hac Hg'.
    apply ie_sheet_types_taxable. exact (tax_ok_types _ i cs out HC E ac g' Hac Hg').
Qed.

(** so, apart from the full report, MainRun's prediction and the modelled generator agree exactly (given the facts of L6
    alone -- usable template, defined label -- and [reports_side_hyps]) *)
Theorem gen_outcome_iff : forall c o cf lang s v i cs g label,
  run_matches c o cf i -> computed_all i (rp_assets i) = Ok cs -> reports_side_hyps v i -> In g (discovery c) ->
  g <> GFullReport -> template_usable c g lang = true -> method_label s = Some label ->
  (run_generator c o lang s (inp_of_rinput i) g = Some (output_name o label g) <-> exists sheets, run_gen v i g = inl sheets).
Proof.
  intros c o cf lang s v i cs g label M HC HS Hg Hnf HT HL. split.
  - intros H. exact (gen_outcome_of_models c o cf lang s v i cs g _ M HC HS Hg H).
  - intros (sheets & H). apply (gen_outcome_predicted c o cf lang s i cs g label M HC HT HL).
    exact (model_ok_condition v i cs g sheets HC Hnf H).
Qed.

(** * E. the hypotheses are decidable: a checker, sound for [reports_ok_hyps] (used for the non-vacuity examples) *)
Definition is_ok {A} (r : result A) : bool := match r with Ok _ => true | Err _ => false end.
Definition is_some {A} (o : option A) : bool := match o with Some _ => true | None => false end.
Definition non_nil {A} (l : list A) : bool := match l with [] => false | _ => true end.
Definition is_jp (c : country) : bool := match c with JP => true | _ => false end.

Definition side_hyps_b (v : renv) (i : rinput) : bool :=
  let cl := computed_list i in
  fenv_fits (rv_fenv v)
  && is_some (gen_op_names (rv_op_lang v))
  && is_some (gen_op_template (country_code (rp_country i)) (rv_op_lang v))
  && method_lookup_ok (rp_sched i)
  && match first_pass (map snd cl) with
     | Ok s => forallb (fun ac => is_ok (unit_style (unit_of s ac))) (fp_costs s)
     | Err _ => false
     end
  && forallb (fun c => negb (asset_listed c) || non_nil (pos_balances c)) (map snd cl)
  && forallb (fun g => match tax_tables_for g with
                       | Some T => forallb (fun ac => is_ok (mk_items T (asset_sources i ac))) cl
                       | None => true
                       end) (discovery (rp_country i)).

Definition reports_ok_b (v : renv) (i : rinput) : bool :=
  let cl := computed_list i in
  forallb (fun ac => holders_with_balance i (snd ac) <=? max_holders) cl
  && negb (is_jp (rp_country i) && negb (rp_from i =? ReportInput.MIN_DAY) && negb (rp_to i =? ReportInput.MAX_DAY))
  && forallb (fun ac => forallb (fun g => ttype_in (t_type (g_ev g)) tax_us_types) (cd_gls (snd ac))) cl
  && side_hyps_b v i.

Lemma is_some_neq {A} (o : option A) : is_some o = true -> o <> None.
Proof. destruct o; [discriminate|intros H; discriminate H]. Qed.
Lemma is_ok_ex {A} (r : result A) : is_ok r = true -> exists a, r = Ok a.
Proof. destruct r; [eauto|discriminate]. Qed.

Lemma side_hyps_b_sound v i : side_hyps_b v i = true -> reports_side_hyps v i.
Proof.
  unfold side_hyps_b. cbv zeta. intros H.
  apply andb_true_iff in H as [H H7]. apply andb_true_iff in H as [H H6]. apply andb_true_iff in H as [H H5].
  apply andb_true_iff in H as [H H4]. apply andb_true_iff in H as [H H3]. apply andb_true_iff in H as [H1 H2].
  constructor.
  - exact H1.
  - apply is_some_neq. exact H2.
  - apply is_some_neq. exact H3.
  - exact H4.
  - destruct (first_pass (map snd (computed_list i))) as [s|]; [|discriminate]. exists s. split; [reflexivity|].
    intros ac Hac. rewrite forallb_forall in H5. apply is_ok_ex. exact (H5 ac Hac).
  - intros a c Hn Hl. rewrite forallb_forall in H6. specialize (H6 c (nth_error_In _ _ Hn)). rewrite Hl in H6. cbn [negb orb] in H6.
    intros E. rewrite E in H6. discriminate.
  - intros g T Hg HT ac Hac. rewrite forallb_forall in H7. specialize (H7 g Hg). rewrite HT in H7.
    rewrite forallb_forall in H7. apply is_ok_ex. exact (H7 ac Hac).
Qed.

Theorem reports_ok_b_sound v i : reports_ok_b v i = true -> reports_ok_hyps v i.
Proof.
  unfold reports_ok_b. cbv zeta. intros H.
  apply andb_true_iff in H as [H H4]. apply andb_true_iff in H as [H H3]. apply andb_true_iff in H as [H1 H2].
  constructor.
  - intros ac Hac. rewrite forallb_forall in H1. apply Z.leb_le. exact (H1 ac Hac).
  - intros (Hc & N1 & N2). rewrite Hc in H2. cbn [is_jp andb] in H2.
    apply Z.eqb_neq in N1, N2. rewrite N1, N2 in H2. discriminate.
  - intros ac g Hac Hg. rewrite forallb_forall in H3. specialize (H3 ac Hac). rewrite forallb_forall in H3.
    apply us_types_are_taxable. exact (H3 g Hg).
  - apply side_hyps_b_sound. exact H4.
Qed.

(** * F. the compute stage of the run, and the statement with [valid_run'] *)
Lemma computed_all_of_each i : forall l, (forall a, In a l -> exists c, computed_of i a = Ok c) -> exists cs, computed_all i l = Ok cs.
Proof.
  induction l as [|a l IH]; intros H; cbn [computed_all]; [eexists; reflexivity|].
  destruct (H a (or_introl eq_refl)) as (c & ->). destruct IH as (r & ->); [intros b Hb; apply H; right; exact Hb|]. eexists. reflexivity.
Qed.

(** MainRun's "every processed asset parses and computes (negative balances only with -n)" on the derived facts holds exactly when
    ComputedData exists for every asset of the rinput *)
Theorem assets_stage_iff c o cf i : run_matches c o cf i ->
  (forallb (asset_computes o (inp_of_rinput i)) (assets_to_process o cf) = true <-> exists cs, computed_all i (rp_assets i) = Ok cs).
Proof.
  intros [M1 M2 M3 M4 M5 M6]. rewrite <- M5, forallb_forall. split.
  - intros H. apply computed_all_of_each. intros a Ha. apply (asset_computes_iff o i a M4).
    specialize (H (ra_name a) (in_map _ _ _ Ha)). unfold asset_computes, inp_of_rinput in H.
    rewrite (facts_of_derived i _ a M6 Ha) in H. exact H.
  - intros (cs & HC) n Hn. apply in_map_iff in Hn as (a & <- & Ha).
    destruct (computed_all_in i _ _ HC a Ha) as (cd & _ & Hcd). unfold asset_computes, inp_of_rinput.
    rewrite (facts_of_derived i _ a M6 Ha). apply (asset_computes_iff o i a M4). eauto.
Qed.

(** [valid_run] restated on the rinput: options / configuration and rinput describe the same run, -m and [accounting_methods] are
    not both given, schedule entries name existing methods, ComputedData exists for every asset (each history was built -- it is
    in the rinput --, the fractions resolve, the yearly figures are defined, no balance goes negative or -n is given: C06 / C08 / C10
    characterise these stages of [compute]) *)
Record valid_run' (c : country) (o : options) (cf : config) (i : rinput) : Prop := {
  vr_matches : run_matches c o cf i;
  vr_one_source : o_method o = None \/ cf_sched cf = [];
  vr_sched_names : Forall (fun e => str_in (snd e) method_plugins = true) (cf_sched cf);
  vr_computes : exists cs, computed_all i (rp_assets i) = Ok cs }.

Theorem run_total_of_models : forall c o cf v i,
  supported c o -> valid_run' c o cf i -> reports_ok_hyps v i ->
  run c o cf (inp_of_rinput i) = (0, map (output_name o (expected_label c o cf)) (discovery c)) /\
  exists l, run_reports c v i = Ok l /\ map fst l = discovery c /\
            map (fun gs => output_name o (expected_label c o cf) (fst gs)) l = snd (run c o cf (inp_of_rinput i)).
Proof. intros c o cf v i Hs [M V1 V2 (cs & HC)] H. exact (run_total_composed c o cf v i cs Hs M V1 V2 HC H). Qed.

(** * G. and no write of a produced report leaves its sheet (the per-report capacity theorems, collected) *)
From RP2V Require Import Proofs.JpSheet.

Definition within_capacity (g : gen_id) (sheets : list sheetw) : Prop :=
  match g with
  | GOpenPositions | GTaxJP => forall s, In s sheets -> sheet_ok s = true
  | GFullReport => forall s, In s (skipn 2 sheets) -> sheet_ok s = true               (* the In-Out and Tax sheets of every asset *)
  | GTaxUS | GTaxIE => forall s, In s sheets -> is_legend s = false -> sheet_ok s = true   (* every data sheet *)
  end.

Theorem run_gen_within_capacity v i g sheets : run_gen v i g = inl sheets -> within_capacity g sheets.
Proof.
  intros H. destruct g; cbn [run_gen within_capacity] in *.
  - unfold open_positions in H. destruct (computed_all i (rp_assets i)) as [acs|]; [|discriminate].
    destruct (open_positions_of (rv_op_lang v) i (map snd acs)) as [sh|] eqn:E; [|discriminate]. inversion H; subst.
    apply Forall_forall. exact (sheets_within_capacity _ _ _ _ E).
  - destruct (full_report code_flags (rv_fenv v) i) as [sh| | |] eqn:E; try discriminate. inversion H; subst.
    destruct (full_report_shape code_flags _ _ _ E) as (acs & m & _ & _ & scap & -> & F). cbn [skipn]. apply Forall_forall. exact F.
  - destruct (tax_report tax_tables_us i) as [out|] eqn:E; [|discriminate]. inversion H; subst.
    exact (data_sheets_within_capacity tax_tables_us (tables_ok_good _ us_tables_ok) us_append_ok i sheets E).
  - unfold jp_report in H. destruct (computed_all i (rp_assets i)) as [l|]; [|discriminate].
    destruct (negb (rp_from i =? ReportInput.MIN_DAY) && negb (rp_to i =? ReportInput.MAX_DAY)); [discriminate|].
    match type of H with context [if ?b then _ else _] => destruct b end; [discriminate|]. inversion H; subst.
    intros s Hs. exact (report_sheets_ok _ _ _ _ s Hs).
  - destruct (tax_report tax_tables_ie i) as [out|] eqn:E; [|discriminate]. inversion H; subst.
    exact (data_sheets_within_capacity tax_tables_ie (tables_ok_good _ ie_tables_ok) ie_append_ok i sheets E).
Qed.
