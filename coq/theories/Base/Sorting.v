(** Stable insertion sort by an integer key: the model of Python's
    [list.sort(key=...)] / [sorted(..., key=...)] (stability is what RP2 relies on). *)
From RP2V Require Import Base.Prelude.
Open Scope Z_scope.

Section Sort.
Context {A : Type} (key : A -> Z).

(** insert x before the first element whose key is >= key x (x came earlier than the
    elements already in the accumulator, which is a sorted suffix of the input) *)
Fixpoint insert_by (x : A) (l : list A) : list A :=
  match l with
  | [] => [x]
  | y :: t => if key x <=? key y then x :: y :: t else y :: insert_by x t
  end.

Fixpoint sort_by (l : list A) : list A :=
  match l with
  | [] => []
  | x :: t => insert_by x (sort_by t)
  end.
End Sort.
