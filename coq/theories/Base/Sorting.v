(** Stable insertion sort by an integer key: the model of Python's
    [list.sort(key=...)] / [sorted(..., key=...)] (stability is what RP2 relies on). *)
From RP2V Require Import Base.Prelude.
Open Scope Z_scope.

Section Sort.
Context {A : Type} (key : A -> Z).

(** insert x before the first element whose key is >= key x (x came earlier than the
    elements already in the accumulator, which is a sorted suffix of the input) *)
Fixpoint insert_by (x : A) (l : list A) : list A :=
  match l with
  | [] => [x]
  | y :: t => if key x <=? key y then x :: y :: t else y :: insert_by x t
  end.

Fixpoint sort_by (l : list A) : list A :=
  match l with
  | [] => []
  | x :: t => insert_by x (sort_by t)
  end.
End Sort.

(** The same stable insertion sort for an arbitrary boolean "less or equal" (used with
    string keys). *)
Section SortLeb.
Context {A : Type} (leb : A -> A -> bool).
Fixpoint insert_leb (x : A) (l : list A) : list A :=
  match l with
  | [] => [x]
  | y :: t => if leb x y then x :: y :: t else y :: insert_leb x t
  end.
Fixpoint sort_leb (l : list A) : list A :=
  match l with
  | [] => []
  | x :: t => insert_leb x (sort_leb t)
  end.
End SortLeb.

(** lexicographic order on strings (lists of code points): Python's str comparison *)
Fixpoint str_leb (a b : list Z) : bool :=
  match a, b with
  | [], _ => true
  | _ :: _, [] => false
  | x :: a', y :: b' => if x <? y then true else if y <? x then false else str_leb a' b'
  end.
Fixpoint str_eqb (a b : list Z) : bool :=
  match a, b with
  | [], [] => true
  | x :: a', y :: b' => (x =? y) && str_eqb a' b'
  | _, _ => false
  end.
