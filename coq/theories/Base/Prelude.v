(** Shared vocabulary of the RP2 model: results with a small error enum,
    option/result helpers, list helpers used by several layers.
    Definitions only plus a few elementary lemmas; stdlib only. *)
From Coq Require Export List ZArith Bool Lia.
Export ListNotations.
Open Scope Z_scope.

(** Error kinds are deliberately coarse: the correspondence check compares
    "which class of failure", never message texts. *)
Inductive err :=
| EExhausted      (* AcquiredLotsExhaustedException -> RP2ValueError *)
| ENoMethod       (* no accounting method for the year (internal) *)
| ELotNone        (* tax_engine: acquired_lot is None (RP2RuntimeError) *)
| EOutOfFuel      (* model artefact: never returned on wf inputs (proved) *)
| EValue          (* RP2ValueError from a constructor / sanity check *)
| EType           (* RP2TypeError *)
| ENegBalance     (* balance went negative *)
| EDup            (* "Entry already added" *)
| EInternal.      (* any other internal error *)

Inductive result (A : Type) := Ok (a : A) | Err (e : err).
Arguments Ok {A} _.
Arguments Err {A} _.

Definition bind {A B} (r : result A) (f : A -> result B) : result B :=
  match r with Ok a => f a | Err e => Err e end.
Notation "'do' x <- r ; k" := (bind r (fun x => k)) (at level 200, x pattern, r at level 100, k at level 200).

Definition err_code (e : err) : Z :=
  match e with
  | EExhausted => 1 | ENoMethod => 2 | ELotNone => 3 | EOutOfFuel => 4 | EValue => 5
  | EType => 6 | ENegBalance => 7 | EDup => 8 | EInternal => 9
  end.

(** Replace the i-th element of a list (no-op when out of range). *)
Fixpoint upd {A} (l : list A) (i : nat) (x : A) : list A :=
  match l, i with
  | [], _ => []
  | _ :: t, O => x :: t
  | h :: t, S j => h :: upd t j x
  end.

Lemma upd_length {A} (l : list A) i x : length (upd l i x) = length l.
Proof. revert i; induction l as [|h t IH]; intros [|i]; simpl; auto. Qed.

Lemma nth_upd_same {A} (l : list A) i x d : (i < length l)%nat -> nth i (upd l i x) d = x.
Proof. revert i; induction l as [|h t IH]; intros [|i] H; simpl in *; try lia; auto. apply IH; lia. Qed.

Lemma nth_upd_other {A} (l : list A) i j x d : i <> j -> nth j (upd l i x) d = nth j l d.
Proof.
  revert i j; induction l as [|h t IH]; intros [|i] [|j] H; simpl; auto; try congruence.
Qed.

Fixpoint sumZ (l : list Z) : Z := match l with [] => 0 | x :: t => x + sumZ t end.

Lemma sumZ_app a b : sumZ (a ++ b) = sumZ a + sumZ b.
Proof. induction a as [|x a IH]; simpl; lia. Qed.

Lemma sumZ_upd l i x : (i < length l)%nat -> sumZ (upd l i x) = sumZ l - nth i l 0 + x.
Proof.
  revert i; induction l as [|h t IH]; intros [|i] H; simpl in *; try lia.
  rewrite IH by lia. lia.
Qed.
