(** Time model.  A timestamp is an instant in microseconds since the Unix epoch
    plus the UTC offset (seconds) it was written with.  Python's aware [datetime]
    compares / subtracts as instants and takes [.date()], [.year] in local time.
    Days are counted from 1970-01-01 (day 0), proleptic Gregorian calendar. *)
From RP2V Require Import Base.Prelude.
Open Scope Z_scope.

Record tstamp := { utc_us : Z; off_s : Z }.

Definition US_PER_DAY : Z := 86400000000.

(** [(b - a).days] of Python: floor of the difference in days. *)
Definition days_between (a b : tstamp) : Z := (utc_us b - utc_us a) / US_PER_DAY.

(** [ts.date()] as a day number (local time). *)
Definition local_day (t : tstamp) : Z := (utc_us t + off_s t * 1000000) / US_PER_DAY.

(** leap years in [1, y) *)
Definition leaps_before (y : Z) : Z := let p := y - 1 in p / 4 - p / 100 + p / 400.
(** days from 0001-01-01 to Jan 1 of year y *)
Definition dby1 (y : Z) : Z := 365 * (y - 1) + leaps_before y.
Definition EPOCH_SHIFT : Z := 719162.   (* dby1 1970 *)
(** days from 1970-01-01 to Jan 1 of year y *)
Definition days_before_year (y : Z) : Z := dby1 y - EPOCH_SHIFT.

Fixpoint year_go (d1 : Z) (fuel : nat) (y : Z) : Z :=
  match fuel with
  | O => y
  | S f => if dby1 (y + 1) <=? d1 then year_go d1 f (y + 1) else y
  end.

(** year of a day number counted from 1970-01-01; meaningful for d >= -719162 *)
Definition year_of_day (d : Z) : Z :=
  let d1 := d + EPOCH_SHIFT in
  year_go d1 (Z.to_nat (d1 / 366 / 300 + 3)) (1 + d1 / 366).

Definition local_year (t : tstamp) : Z := year_of_day (local_day t).

Definition is_leap (y : Z) : bool := ((y mod 4 =? 0) && negb (y mod 100 =? 0)) || (y mod 400 =? 0).
Definition month_lengths (y : Z) : list Z :=
  [31; if is_leap y then 29 else 28; 31; 30; 31; 30; 31; 31; 30; 31; 30; 31].
Fixpoint md (ls : list Z) (r : Z) (m : Z) : Z * Z :=
  match ls with
  | [] => (m, r + 1)
  | l :: t => if r <? l then (m, r + 1) else md t (r - l) (m + 1)
  end.
Definition ymd_of_day (d : Z) : Z * Z * Z :=
  let y := year_of_day d in
  let '(m, dd) := md (month_lengths y) (d - days_before_year y) 1 in (y, m, dd).

(** instant order used everywhere RP2 sorts by timestamp *)
Definition ts_ltb (a b : tstamp) : bool := utc_us a <? utc_us b.
Definition ts_leb (a b : tstamp) : bool := utc_us a <=? utc_us b.

(** Range of timestamps Python can represent (years 1..9999), generously. *)
Definition ts_in_range (t : tstamp) : Prop :=
  -62135596800000000 <= utc_us t <= 253402300799999999 /\ -86400 < off_s t < 86400.
