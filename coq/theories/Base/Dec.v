(** Python's [decimal] as RP2 configures it: prec = 31 significant digits,
    ROUND_HALF_EVEN; RP2Decimal's overridden comparisons quantise the
    difference to 13 decimals first.  A value is m * 10^e. *)
From RP2V Require Import Base.Prelude.
Open Scope Z_scope.

Definition dec := (Z * Z)%type.
Definition PREC : Z := 31.
Definition CRYPTO_DECIMALS : Z := 13.

(** number of decimal digits of |n| (0 for 0) *)
Fixpoint ndigits_pos (fuel : nat) (n : Z) (acc : Z) : Z :=
  match fuel with
  | O => acc
  | S f => if n =? 0 then acc else ndigits_pos f (n / 10) (acc + 1)
  end.
Definition ndigits (n : Z) : Z := ndigits_pos (S (Z.to_nat (Z.log2 (Z.abs n)))) (Z.abs n) 0.

Definition pow10 (k : Z) : Z := 10 ^ k.

(** round-half-even of n / d for d > 0; [sticky] = something non-zero was already discarded *)
Definition rhe_div (n d : Z) (sticky : bool) : Z :=
  let a := Z.abs n in
  let q := a / d in let r := a mod d in
  let up := (2 * r >? d) || ((2 * r =? d) && (sticky || Z.odd q)) in
  let q' := if up then q + 1 else q in
  if n <? 0 then - q' else q'.

Definition rnd (x : dec) : dec :=
  let '(m, e) := x in
  let k := ndigits m - PREC in
  if k <=? 0 then (m, e) else (rhe_div m (pow10 k) false, e + k).

Definition align (a b : dec) : Z * Z * Z :=
  let '(m1, e1) := a in let '(m2, e2) := b in
  let e := Z.min e1 e2 in (m1 * pow10 (e1 - e), m2 * pow10 (e2 - e), e).

Definition dadd (a b : dec) : dec := let '(x, y, e) := align a b in rnd (x + y, e).
Definition dsub (a b : dec) : dec := let '(x, y, e) := align a b in rnd (x - y, e).
Definition dmul (a b : dec) : dec := rnd (fst a * fst b, snd a + snd b).
Definition dneg (a : dec) : dec := (- fst a, snd a).

(** division: None when dividing by zero (Python raises) *)
Definition ddiv (a b : dec) : option dec :=
  let '(m1, e1) := a in let '(m2, e2) := b in
  if m2 =? 0 then None else
  if m1 =? 0 then Some (0, 0) else
  let neg := negb (Bool.eqb (m1 <? 0) (m2 <? 0)) in
  let n := Z.abs m1 in let d := Z.abs m2 in
  let sh := Z.max 0 (PREC + 2 - (ndigits n - ndigits d)) in
  let num := n * pow10 sh in
  let q := num / d in let r := num mod d in
  let k := ndigits q - PREC in            (* >= 1 by choice of sh *)
  let qq := rhe_div q (pow10 k) (negb (r =? 0)) in
  Some (if neg then - qq else qq, e1 - e2 - sh + k).

(** quantize to k decimals, half-even; None if the coefficient would need more than PREC digits *)
Definition quant (k : Z) (x : dec) : option Z :=      (* result in units of 10^-k *)
  let '(m, e) := x in
  let r := if - k <=? e then m * pow10 (e + k) else rhe_div m (pow10 (- k - e)) false in
  if ndigits r >? PREC then None else Some r.

(** RP2Decimal comparisons: quantize the difference to 13 decimals.
    [None] = Python raises decimal.InvalidOperation. *)
Definition cmp13 (a b : dec) : option Z := quant CRYPTO_DECIMALS (dsub a b).
Definition deq (a b : dec) := option_map (fun r => r =? 0) (cmp13 a b).
Definition dgt (a b : dec) := option_map (fun r => r >? 0) (cmp13 a b).
Definition dge (a b : dec) := option_map (fun r => r >=? 0) (cmp13 a b).
Definition dlt (a b : dec) := option_map negb (dge a b).
Definition dle (a b : dec) := option_map negb (dgt a b).

Definition dzero : dec := (0, 0).
(** a value on the 1e-11 grid, given in grid units *)
Definition of_grid (u : Z) : dec := (u, -11).

(** exact value as a pair numerator / denominator (denominator a power of ten > 0) *)
Definition dnum (x : dec) : Z := if 0 <=? snd x then fst x * pow10 (snd x) else fst x.
Definition dden (x : dec) : Z := if 0 <=? snd x then 1 else pow10 (- snd x).

(** semantic equality of two decimals (same rational value) *)
Definition dsame (a b : dec) : bool := let '(x, y, _) := align a b in x =? y.
