(** Insertion-ordered association lists keyed by integers: the model of the Python
    dicts RP2 keys by transaction (= internal id) or by small tuples encoded as integers. *)
From RP2V Require Import Base.Prelude.
Open Scope Z_scope.

Section Assoc.
Context {V : Type}.
Definition assoc := list (Z * V).

Fixpoint aget (k : Z) (m : assoc) : option V :=
  match m with
  | [] => None
  | (k', v) :: t => if k =? k' then Some v else aget k t
  end.
(** d[k] = v : update in place, or append (insertion order of first assignment is kept) *)
Fixpoint aset (k : Z) (v : V) (m : assoc) : assoc :=
  match m with
  | [] => [(k, v)]
  | (k', v') :: t => if k =? k' then (k, v) :: t else (k', v') :: aset k v t
  end.
Fixpoint adel (k : Z) (m : assoc) : assoc :=
  match m with
  | [] => []
  | (k', v') :: t => if k =? k' then t else (k', v') :: adel k t
  end.
Definition amem (k : Z) (m : assoc) : bool := match aget k m with Some _ => true | None => false end.
Definition aget_d (d : V) (k : Z) (m : assoc) : V := match aget k m with Some v => v | None => d end.
End Assoc.
Arguments assoc V : clear implicits.
