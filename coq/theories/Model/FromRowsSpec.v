(** Vocabulary for restating the matcher properties (C01, C02, C09) for histories BUILT FROM INPUT ROWS, in the words
    of the property texts: transactions, acquisitions and their unconsumed balance, the ranking of the accounting
    methods, a history extended by rows dated after an instant.  Definitions only (proofs: Proofs/FromRows.v). *)
From RP2V Require Import Base.Prelude Base.Time Base.Dec Base.Sorting Model.Types Model.Generated Model.Txn
  Model.Matcher Model.MatchSpec Model.FracSpec Model.Pipeline.
Open Scope Z_scope.

(** unconsumed balance of the acquisition [a] after the fractions [fs]: the amount acquired minus everything taken from
    it so far, whatever method took it *)
Definition lot_balance (fs : list fraction) (a : intx) : Z := i_crypto_in a - lot_taken fs (i_row a).

(** "older": earlier instant, among equal instants the earlier sheet row *)
Definition older (a b : intx) : Prop := in_us a < in_us b \/ (in_us a = in_us b /\ i_row a < i_row b).

(** [a] is ranked strictly before [b] by method [m]: oldest first (FIFO); newest first, among equal instants the later
    sheet row (LIFO); highest spot price first, ties to the older lot (HIFO); lowest spot price first, ties to the
    older lot (LOFO) *)
Definition ranks_before (m : meth) (a b : intx) : Prop :=
  match m with
  | Fifo => older a b
  | Lifo => older b a
  | Hifo => i_spot b < i_spot a \/ (i_spot a = i_spot b /\ older a b)
  | Lofo => i_spot a < i_spot b \/ (i_spot a = i_spot b /\ older a b)
  end.

(** the row ids of the input are pairwise distinct across the three tables (what the parser guarantees: a row id is
    the sheet row number, an artificial fee row gets an id below every sheet row -- C11_rows_once_in_order,
    C17_artificial_ids_below_counter) *)
Definition distinct_row_ids (h : hist) : Prop :=
  NoDup (map ri_row (h_ins h) ++ map ro_row (h_outs h) ++ map rx_row (h_intras h)).

(** total amount acquired at or before the instant [T] *)
Definition acquired_by (t : txs) (T : Z) : Z := sumZ (map i_crypto_in (filter (fun a => in_us a <=? T) (t_ins t))).
(** total amount leaving the holder through the disposals (non-income taxable events) of [l] *)
Definition disposed (l : list txn) : Z := sumZ (map t_balance_change (filter (fun x => negb (t_is_earning x)) l)).

(** [h] is the history [h2] without its rows dated after the instant [T] (rows keep their ids and their order): "[h2] adds
    to [h] transactions dated after [T]", wherever in the tables the added rows stand *)
Definition rows_extend_after (T : Z) (h h2 : hist) : Prop :=
  h_ins h = filter (fun r => utc_us (ri_ts r) <=? T) (h_ins h2) /\
  h_outs h = filter (fun r => utc_us (ro_ts r) <=? T) (h_outs h2) /\
  h_intras h = filter (fun r => utc_us (rx_ts r) <=? T) (h_intras h2).

(** [h2] is [h] plus one disposal row [r] at the end of the OUT table *)
Definition with_final_out (h : hist) (r : raw_out) : hist :=
  {| h_ins := h_ins h; h_outs := h_outs h ++ [r]; h_intras := h_intras h |}.
(** every row of [h] is dated strictly before the instant [T] *)
Definition all_rows_before (h : hist) (T : Z) : Prop :=
  (forall r, In r (h_ins h) -> utc_us (ri_ts r) < T) /\ (forall r, In r (h_outs h) -> utc_us (ro_ts r) < T) /\
  (forall r, In r (h_intras h) -> utc_us (rx_ts r) < T).
