(** C18, static half -- what the source of rp2 may import and which call sites may modify files.
    The tables [import_table] and [call_sites] are regenerated from every *.py under src/rp2 on
    every run (translator fragment `imports`); this file holds the policy (allow / deny lists, the
    modelled write sites) and the decidable checkers the theorems of C18 evaluate. *)
From RP2V Require Import Base.Prelude Base.Sorting Model.Types.
From RP2V Require Import Model.Generated Model.MainRun.
Open Scope Z_scope.

Fixpoint str_prefixb (p s : str) : bool :=
  match p, s with
  | [], _ => true
  | _ :: _, [] => false
  | x :: p', y :: s' => (x =? y) && str_prefixb p' s'
  end.

Fixpoint top_level (m : str) : str :=
  match m with [] => [] | x :: t => if x =? c_dot then [] else x :: top_level t end.

(** [allowed_toplevel], [denied_toplevel], [denied_dotted], [denied_names], [s_plugin_prefix] and
    [modelled_write_sites] are the policy lists (fragment `policy` of Generated.v). *)
Definition import_ok (imp : str * str) : bool :=
  let m := fst imp in
  let t := top_level m in
  str_in t allowed_toplevel && negb (str_in t denied_toplevel)
  && negb (existsb (fun d => str_prefixb d m) denied_dotted)
  && negb (existsb (fun d => str_eqb (fst d) m && str_prefixb (snd d) (snd imp)) denied_names).

Definition module_imports_ok (e : str * list (str * str)) : bool := forallb import_ok (snd e).
Definition imports_ok : bool := forallb module_imports_ok import_table.

(** call sites: (module, kind, callee, constant prefix, open mode) *)
Definition site := (str * Z * str * str * str)%type.
Definition st_module (s : site) : str := match s with (m, _, _, _, _) => m end.
Definition st_kind (s : site) : Z := match s with (_, k, _, _, _) => k end.
Definition st_callee (s : site) : str := match s with (_, _, c, _, _) => c end.
Definition st_prefix (s : site) : str := match s with (_, _, _, p, _) => p end.
Definition st_mode (s : site) : str := match s with (_, _, _, _, m) => m end.

Definition dynamic_import_ok (s : site) : bool := negb (st_kind s =? 1) || str_prefixb s_plugin_prefix (st_prefix s).
Definition dynamic_imports_confined : bool := forallb dynamic_import_ok call_sites.

(** kinds 2 (exec/eval/compile), 4 (process), 5 (network) must not occur at all *)
Definition no_exec_site (s : site) : bool := negb ((st_kind s =? 2) || (st_kind s =? 4) || (st_kind s =? 5)).
Definition no_exec_process_network : bool := forallb no_exec_site call_sites.

(** an open() whose mode is not a constant made of r / b / t only counts as writing *)
Definition read_only_mode (m : str) : bool :=
  match m with [] => false | _ => forallb (fun ch => (ch =? 114) || (ch =? 98) || (ch =? 116)) m end.
Definition is_write_site (s : site) : bool :=
  (st_kind s =? 6) || (st_kind s =? 7) || ((st_kind s =? 3) && negb (read_only_mode (st_mode s))).

Definition site_matches (s : site) (a : str * str * str) : bool :=
  match a with (m, c, p) =>
    str_eqb (st_module s) m && str_eqb (st_callee s) c
    && match p with [] => true | _ => str_prefixb p (st_prefix s) end
  end.
Definition write_site_ok (s : site) : bool := negb (is_write_site s) || existsb (site_matches s) modelled_write_sites.
Definition write_sites_modelled : bool := forallb write_site_ok call_sites.
(** each modelled site occurs at most once in the source *)
Definition write_sites_unique : bool :=
  forallb (fun a => (Z.of_nat (length (filter (fun s => is_write_site s && site_matches s a) call_sites)) <=? 1)) modelled_write_sites.

(** the entry points: every console script calls the rp2_entry of a country module, and the five
    country entry points all exist *)
Definition country_code (c : country) : Z := match c with US => 0 | ES => 1 | JP => 2 | IE => 3 | GENERIC => 4 end.
Definition scripts_cover_countries : bool :=
  forallb (fun c => existsb (fun e => country_code (snd e) =? country_code c) console_scripts) all_countries.
