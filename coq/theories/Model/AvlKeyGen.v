(** Interpreter of the tables the translator reads from accounting_engine.py (`_get_avl_node_key` and its uses) and from
    abstract_accounting_method.py + the method plugins (`AcquiredLotSortKey`, `sort_key`) on every run (Model.Types.v,
    fragment avl_key).  Two readings of the AVL key:
    - the STRING the source builds ([avl_key_gen]: strftime of the zone-normalised timestamp, separator, padded id), compared
      as Python compares `str` ([str_leb]: by code point, a proper prefix is smaller);
    - its RANK ([ak_num_key]): the pair of numbers whose lexicographic order is the order of such strings when every field has
      a fixed width and the calendar fields are listed from the most to the least significant one.
    Proofs/AvlKeyGenProofs.v proves that for the tables of the CURRENT source the rank is (instant in microseconds, row) - the
    order [Matcher.to_index] uses - and checks the string reading on witnesses.  Definitions only. *)
From RP2V Require Import Base.Prelude Base.Time Model.Types Model.GeneratedTie.
Open Scope Z_scope.

(** the time line strftime is applied to *)
Definition ak_line (z : ak_zone) (t : tstamp) : Z :=
  match z with AZ_utc => utc_us t | AZ_wall_clock => utc_us t + off_s t * 1000000 end.

(** ---------- the string *)
Definition digit_at (i : nat) (n : Z) : Z := 48 + (n / 10 ^ Z.of_nat i) mod 10.
Definition digits_w (w : nat) (n : Z) : list Z := map (fun i => digit_at i n) (rev (seq 0 w)).
Definition ak_part_str (us : Z) (p : ak_part) : list Z :=
  let r := us mod US_PER_DAY in
  let '(y, m, d) := ymd_of_day (us / US_PER_DAY) in
  match p with
  | AP_year4 => digits_w 4 y | AP_month => digits_w 2 m | AP_day => digits_w 2 d
  | AP_hour => digits_w 2 (r / 3600000000) | AP_minute => digits_w 2 (r / 60000000 mod 60) | AP_second => digits_w 2 (r / 1000000 mod 60)
  | AP_micro => digits_w 6 (r mod 1000000)
  | AP_lit c => [c]
  end.
(** format spec `<fill><side><width>` of a str: never truncates *)
Definition ak_pad (s : list Z) : list Z :=
  let fill := repeat gen_ak_pad_char (Z.to_nat gen_ak_width - length s) in
  match gen_ak_pad_side with AS_pad_left => fill ++ s | AS_pad_right => s ++ fill end.
Definition avl_key_gen (t : tstamp) (id : list Z) : list Z :=
  flat_map (ak_part_str (ak_line gen_ak_zone t)) gen_ak_format ++ gen_ak_sep ++ ak_pad id.
Definition avl_lookup_key_gen (t : tstamp) : list Z := avl_key_gen t gen_ak_max_disambiguator.

(** Python's `a <= b` on str *)
Fixpoint str_leb (a b : list Z) : bool :=
  match a, b with
  | [], _ => true
  | _ :: _, [] => false
  | x :: a', y :: b' => (x <? y) || ((x =? y) && str_leb a' b')
  end.
(** str(n) for n >= 0 *)
Fixpoint dec_str_aux (fuel : nat) (n : Z) (acc : list Z) : list Z :=
  match fuel with
  | O => acc
  | S f => let acc' := (48 + n mod 10) :: acc in if n <? 10 then acc' else dec_str_aux f (n / 10) acc'
  end.
Definition dec_str (n : Z) : list Z := dec_str_aux 40 n [].

(** ---------- the rank *)
Definition ak_is_directive (p : ak_part) : bool := match p with AP_lit _ => false | _ => true end.
(** microseconds per unit of the least significant field, if the directives are year, month, ... in this order without a
    gap (otherwise the string order is not a time order at all) *)
Definition ak_resolution : option Z :=
  match filter ak_is_directive gen_ak_format with
  | [AP_year4; AP_month; AP_day; AP_hour; AP_minute; AP_second; AP_micro] => Some 1
  | [AP_year4; AP_month; AP_day; AP_hour; AP_minute; AP_second] => Some 1000000
  | [AP_year4; AP_month; AP_day; AP_hour; AP_minute] => Some 60000000
  | [AP_year4; AP_month; AP_day; AP_hour] => Some 3600000000
  | [AP_year4; AP_month; AP_day] => Some US_PER_DAY
  | _ => None
  end.
Fixpoint ndigits_aux (fuel : nat) (n : Z) : Z :=
  match fuel with O => 1 | S f => if n <? 10 then 1 else 1 + ndigits_aux f (n / 10) end.
Definition ndigits (n : Z) : Z := ndigits_aux 40 n.
(** a decimal id under the pad: right-aligned between zeros it ranks as the number; left-aligned with zeros appended it ranks
    as the number shifted to the full width (9 -> 900000000000 > 10 -> 100000000000); another fill character has no rank *)
Definition ak_id_rank (row : Z) : option Z :=
  if gen_ak_pad_char =? 48 then
    match gen_ak_pad_side with
    | AS_pad_left => Some row
    | AS_pad_right => Some (row * 10 ^ (gen_ak_width - ndigits row))
    end
  else None.
Definition str_num (s : list Z) : Z := fold_left (fun acc c => acc * 10 + (c - 48)) s 0.
Definition ak_max_num : Z := str_num gen_ak_max_disambiguator.

Definition ak_num_key (t : tstamp) (row : Z) : option (Z * Z) :=
  match ak_resolution, ak_id_rank row with
  | Some r, Some i => Some (ak_line gen_ak_zone t / r, i)
  | _, _ => None
  end.
Definition ak_num_lookup_key (t : tstamp) : option (Z * Z) :=
  match ak_resolution with Some r => Some (ak_line gen_ak_zone t / r, ak_max_num) | None => None end.

Definition pair_ltb (a b : Z * Z) : bool := (fst a <? fst b) || ((fst a =? fst b) && (snd a <? snd b)).
Definition pair_leb (a b : Z * Z) : bool := (fst a <? fst b) || ((fst a =? fst b) && (snd a <=? snd b)).

(** what `initialize` inserts for a lot and what `get_acquired_lot_for_taxable_event` looks up for an event at [te] *)
Definition ak_inserted (l : intx) : option (Z * Z) :=
  match gen_ak_insert with (AKS_lot_timestamp, AKI_lot_internal_id) => ak_num_key (i_ts l) (i_row l) | _ => None end.
Definition ak_looked_up (te : tstamp) : option (Z * Z) :=
  match gen_ak_lookup with AKL_max_le AKS_event_timestamp AKI_max_disambiguator => ak_num_lookup_key te | _ => None end.
(** `find_max_value_less_than`: is the lot's key <= the lookup key *)
Definition ak_visible (l : intx) (te : tstamp) : option bool :=
  match ak_inserted l, ak_looked_up te with Some k, Some q => Some (pair_leb k q) | _, _ => None end.

(** the heap key of a feature-based method as the triple [Matcher.hkey] compares *)
Definition sk_key_gen (m : meth) (l : intx) : option (Z * Z * Z) :=
  match gen_sk_key m l with [a; b; c] => Some (a, b, c) | _ => None end.

(** ---------- `find_max_value_less_than(lookup key of the event)` over the inserted keys: position (in the lot list) of the
    lot with the greatest key among the keys <= the lookup key; None = the tables have no rank *)
Definition ti_best := option (nat * (Z * Z)).
Fixpoint to_index_gen_aux (te : tstamp) (l : list intx) (i : nat) (best : ti_best) : option ti_best :=
  match l with
  | [] => Some best
  | x :: r =>
    match ak_visible x te, ak_inserted x with
    | Some vis, Some kx =>
      let best' := if vis
                   then match best with
                        | None => Some (i, kx)
                        | Some (_, kb) => if pair_ltb kb kx then Some (i, kx) else best
                        end
                   else best in
      to_index_gen_aux te r (S i) best'
    | _, _ => None
    end
  end.
Definition to_index_gen (lots : list intx) (te : tstamp) : option (option nat) :=
  match to_index_gen_aux te lots O None with
  | Some (Some (i, _)) => Some (Some i)
  | Some None => Some None
  | None => None
  end.
