(** rp2_full_report.Generator.generate (+ AbstractODSGenerator._initialize_output_file) as the
    sequence of [_fill_cell] calls it performs, with the same counters, sheet sizes and the two
    class-level dictionaries that feed the hyperlinks:

      __in_out_sheet_transaction_2_row   transaction -> row of the In-Out sheet.  A transaction hashes /
                                         compares by its internal id (= row number of the input sheet)
                                         ONLY, and the dictionary is a class attribute that the code
                                         as published never empties: entries written for an earlier
                                         asset are still there when the next asset is generated.
      __tax_sheet_year_2_row             (asset, year) -> first detail row of that year in "<asset> Tax"

    Table constants, column layouts and three structural facts (is the row map emptied per asset,
    is the (asset, year) lookup guarded, is a one-entry schedule printed by value) come from
    Generated.v (fragment full_report), i.e. from the source text of the current tree.
    Translated texts that end up in data cells (type names, LONG/SHORT, YES/NO, sheet names) are
    inputs ([fe_texts]: the translations of [gen_full_msgids], looked up by the harness in the
    message catalogue of the generation language); static header/legend texts are [PLabel]. *)
From RP2V Require Import Base.Prelude Base.Time Base.Dec Base.Sorting Base.Assoc Model.Types Model.Generated Model.Txn
  Model.Matcher Model.Pipeline Model.Computed Model.Grid Model.ReportInput.
Open Scope Z_scope.

Record fenv := {
  fe_texts : list str;                          (* translations of gen_full_msgids, same order *)
  fe_legend_rows : Z; fe_legend_cols : Z;       (* size of the template's Legend sheet *)
  fe_summary_rows : Z; fe_summary_cols : Z;     (* size of the template's Summary sheet *)
  fe_extra : list (assoc (str * str)) }.        (* per asset, same order as rp_assets: 3 * row id + table -> (unique_id, notes) *)

Record fflags := { ff_clears : bool; ff_guarded : bool; ff_single_by_value : bool }.
Definition code_flags : fflags :=
  {| ff_clears := gen_full_clears_row_map; ff_guarded := gen_full_summary_link_guarded;
     ff_single_by_value := gen_ods_single_method_by_value |}.
Definition fixed_flags : fflags := {| ff_clears := true; ff_guarded := true; ff_single_by_value := true |}.

Inductive fres (A : Type) := ROk (a : A) | RKeyError | RIndexError | RErr (e : err).
Arguments ROk {A} _.
Arguments RKeyError {A}.
Arguments RIndexError {A}.
Arguments RErr {A} _.

(** ---------- strings *)
Fixpoint fmt1 (p a : str) : str :=           (* "{} In-Out".format(asset) *)
  match p with
  | 123 :: 125 :: t => a ++ t
  | c :: t => c :: fmt1 t a
  | [] => []
  end.
Fixpoint join (sep : str) (l : list str) : str :=
  match l with [] => [] | [x] => x | x :: t => x ++ sep ++ join sep t end.

(** f"{d:.8f}" of a non-negative value on the 1e-11 grid (ROUND_HALF_EVEN) *)
Definition fmt8 (u : Z) : str :=
  let q := rhe_div u 1000 false in
  str_of_Z (q / 100000000) ++ [46] ++ tl (str_of_Z (100000000 + q mod 100000000)).

Definition meth_name (m : meth) : str :=
  match m with Fifo => [70; 73; 70; 79] | Lifo => [76; 73; 70; 79] | Hifo => [72; 73; 70; 79] | Lofo => [76; 79; 70; 79] end.
Definition s_arrow : str := [45; 62].
Definition s_colon : str := [58].
Definition s_comma : str := [44; 32].
Definition s_non_specified : str := [110; 111; 110; 45; 115; 112; 101; 99; 105; 102; 105; 101; 100].
Definition s_IN : str := [73; 78].
Definition s_OUT : str := [79; 85; 84].
Definition s_INTRA : str := [73; 78; 84; 82; 65].
Definition s_slash : str := [32; 47; 32].
Definition s_of : str := [32; 111; 102; 32].
Definition MIN_YEAR : Z := 1970.               (* configuration.MIN_DATE.year *)

(** Legend: "FIFO" for a one-entry schedule (looked up under 1970 by the code as published: KeyError
    otherwise), else "y:M" / "y0->y:M" per entry *)
Fixpoint sched_items (old : Z) (l : list (Z * meth)) : list str :=
  match l with
  | [] => []
  | (y, m) :: t =>
    (if y - old >? 1 then str_of_Z old ++ s_arrow ++ str_of_Z y ++ s_colon ++ meth_name m
     else str_of_Z y ++ s_colon ++ meth_name m) :: sched_items y t
  end.
Definition legend_methods (fl : fflags) (sched : list (Z * meth)) : fres str :=
  match sched with
  | [(y, m)] => if ff_single_by_value fl || (y =? MIN_YEAR) then ROk (meth_name m) else RKeyError
  | _ => ROk (join s_comma (sched_items MIN_YEAR sched))
  end.

(** ---------- generic pieces *)
Definition lab (b : bool) : payload := if b then PLabel else PEmpty.
Fixpoint hdr_cols (r c : Z) (h1 h2 : list bool) : list cellw :=
  match h1, h2 with
  | a :: t1, b :: t2 => cw r c (lab a) :: cw (r + 1) c (lab b) :: hdr_cols r (c + 1) t1 t2
  | _, _ => []
  end.
(** _fill_header: title, then two header rows; returns the first row after the header *)
Definition fill_header (r : Z) (h : list bool * list bool * Z) : list cellw * Z :=
  let '(h1, h2, c) := h in
  (cw r 0 PLabel :: cw (r + 1) 0 PEmpty :: cw (r + 2) 0 PEmpty :: hdr_cols (r + 1) c h1 h2, r + gen_header_height).

Definition row_cells (r : Z) (cols : list fcol) (cell : flink -> ffield -> payload) : list cellw :=
  map (fun x : fcol => let '(c, l, f) := x in cw r c (cell l f)) cols.

Section Table.
Context {A : Type} (cols : A -> list fcol) (cell : nat -> A -> flink -> ffield -> payload).
(** one spreadsheet row per list element, starting at row r; k = index of the element *)
Fixpoint table_rows (r : Z) (k : nat) (l : list A) : list cellw :=
  match l with
  | [] => []
  | t :: rest => row_cells r (cols t) (cell k t) ++ table_rows (r + 1) (S k) rest
  end.
End Table.

(** dict[transaction] = row_index + 1 for every table row (key = internal id = input row number) *)
Fixpoint lm_add {A} (rowid : A -> Z) (r : Z) (l : list A) (lm : assoc Z) : assoc Z :=
  match l with
  | [] => lm
  | t :: rest => lm_add rowid (r + 1) rest (aset (rowid t) (r + 1) lm)
  end.

Definition bad : payload := PFormula [63].    (* a field that does not belong to the table: never produced from a recognised source *)
Definition pnum_o (o : option dec) : payload := match o with Some d => PNum d | None => bad end.

(** __get_hyperlinked_transaction_value *)
Definition linkp (lm : assoc Z) (sheet : str) (rowid : Z) (inner : payload) : payload :=
  match aget rowid lm with
  | Some r => if r =? 0 then inner else PLink sheet r inner
  | None => inner
  end.

Definition t_spot (t : txn) : Z := match t with TIn a => i_spot a | TOut a => o_spot a | TIntra a => x_spot a end.
Definition table_type (t : txn) : str := match t with TIn _ => s_IN | TOut _ => s_OUT | TIntra _ => s_INTRA end.

Definition gl_same (a b : gl) : bool :=
  (t_row (g_ev a) =? t_row (g_ev b)) &&
  match g_lot a, g_lot b with
  | Some x, Some y => i_row x =? i_row y
  | None, None => true
  | _, _ => false
  end.
(** dict keyed by GainLoss (= event id + lot id): the last assignment wins *)
Fixpoint gl_running_of (g : gl) (l : list (gl * Z)) (acc : Z) : Z :=
  match l with
  | [] => acc
  | (g', v) :: t => gl_running_of g t (if gl_same g g' then v else acc)
  end.

Fixpoint find3 (row : Z) (l : list (Z * Z * Z)) : Z * Z :=
  match l with
  | [] => (0, 0)
  | (r, a, b) :: t => if r =? row then (a, b) else find3 row t
  end.

Section Gen.
Variable fl : fflags.
Variable env : fenv.
Variable inp : rinput.

Fixpoint tr_find (m : str) (ids : list (str * bool)) (ts : list str) : str :=
  match ids, ts with
  | (k, _) :: ids', t :: ts' => if str_eqb m k then t else tr_find m ids' ts'
  | _, _ => m                                   (* gettext returns the message id itself *)
  end.
Definition tr (m : str) : str := tr_find m gen_full_msgids (fe_texts env).
Definition type_text (t : ttype) : str := tr (gen_full_type_msgid t).     (* get_translation().upper(): upper-cased by the harness *)
Definition exch_name (k : Z) : str := nth (Z.to_nat k) (rp_exchanges inp) [].
Definition holder_name (k : Z) : str := nth (Z.to_nat k) (rp_holders inp) [].
Definition yesno (b : bool) : payload := PStr (tr (if b then gen_full_msg_yes else gen_full_msg_no)).
Definition cap_type (long : bool) : payload := PStr (tr (if long then gen_full_msg_long else gen_full_msg_short)).
Definition inout_name (a : str) : str := fmt1 (tr gen_full_msg_inout) a.
Definition tax_name (a : str) : str := fmt1 (tr gen_full_msg_tax) a.

Record actx := { ac_idx : Z; ac_name : str; ac_txs : txs; ac_c : computed; ac_extra : assoc (str * str) }.
(** unique id / notes of a transaction: keyed by (table, row id) -- the texts belong to the transaction object, not to its id *)
Definition extra_key (cls row : Z) : Z := 3 * row + cls.
Definition uid_of (x : actx) (cls row : Z) : str := fst (aget_d ([], []) (extra_key cls row) (ac_extra x)).
Definition notes_of (x : actx) (cls row : Z) : str := snd (aget_d ([], []) (extra_key cls row) (ac_extra x)).

(** ----- In-Out sheet *)
Definition in_field (x : actx) (k : nat) (t : intx) (_ : flink) (f : ffield) : payload :=
  match f with
  | F_in_sold =>
    (* ZERO is written only on the first row; later rows with nothing sold stay blank *)
    let p := aget_d dzero (i_row t) (cd_sold_pct (ac_c x)) in
    if deqb p dzero && negb (Nat.eqb k 0) then PEmpty else PNum p
  | F_ts => PTs (i_ts t)
  | F_asset => PStr (ac_name x)
  | F_exch => PStr (exch_name (i_exch t))
  | F_holder => PStr (holder_name (i_holder t))
  | F_type => PStr (type_text (i_type t))
  | F_spot => PNum (of_grid (i_spot t))
  | F_in_crypto => PNum (of_grid (i_crypto_in t))
  | F_in_running => PNum (of_grid (fst (find3 (i_row t) (cd_in_running (ac_c x)))))
  | F_fiat_fee => PNum (i_fiat_fee t)
  | F_in_fiat_no_fee => PNum (i_fiat_in_no_fee t)
  | F_in_fiat_with_fee => PNum (i_fiat_in_with_fee t)
  | F_taxable => yesno (in_is_taxable t)
  | F_blank => PEmpty
  | F_uid => PStr (uid_of x 0 (i_row t))
  | F_notes => PStr (notes_of x 0 (i_row t))
  | _ => bad
  end.

Definition out_field (x : actx) (k : nat) (t : outtx) (_ : flink) (f : ffield) : payload :=
  match f with
  | F_blank => PEmpty
  | F_ts => PTs (o_ts t)
  | F_asset => PStr (ac_name x)
  | F_exch => PStr (exch_name (o_exch t))
  | F_holder => PStr (holder_name (o_holder t))
  | F_type => PStr (type_text (o_type t))
  | F_spot => PNum (of_grid (o_spot t))
  | F_out_crypto => PNum (of_grid (o_crypto_out_no_fee t))
  | F_crypto_fee => PNum (of_grid (o_crypto_fee t))
  | F_out_running => PNum (of_grid (fst (find3 (o_row t) (cd_out_running (ac_c x)))))
  | F_out_fee_running => PNum (of_grid (snd (find3 (o_row t) (cd_out_running (ac_c x)))))
  | F_out_fiat => PNum (o_fiat_out_no_fee t)
  | F_fiat_fee => PNum (o_fiat_fee t)
  | F_taxable => yesno (out_is_taxable t)
  | F_uid => PStr (uid_of x 1 (o_row t))
  | F_notes => PStr (notes_of x 1 (o_row t))
  | _ => bad
  end.

Definition intra_field (x : actx) (k : nat) (t : intratx) (_ : flink) (f : ffield) : payload :=
  match f with
  | F_blank => PEmpty
  | F_ts => PTs (x_ts t)
  | F_asset => PStr (ac_name x)
  | F_x_from_exch => PStr (exch_name (x_from_exch t))
  | F_x_from_holder => PStr (holder_name (x_from_holder t))
  | F_x_to_exch => PStr (exch_name (x_to_exch t))
  | F_x_to_holder => PStr (holder_name (x_to_holder t))
  | F_spot => PNum (of_grid (x_spot t))
  | F_x_sent => PNum (of_grid (x_crypto_sent t))
  | F_x_received => PNum (of_grid (x_crypto_received t))
  | F_crypto_fee => PNum (of_grid (x_crypto_fee t))
  | F_x_fee_running => PNum (of_grid (aget_d 0 (x_row t) (cd_intra_running (ac_c x))))
  | F_fiat_fee => PNum (x_fiat_fee t)
  | F_taxable => yesno (intra_is_taxable t)
  | F_uid => PStr (uid_of x 2 (x_row t))
  | F_notes => PStr (notes_of x 2 (x_row t))
  | _ => bad
  end.

Definition gap (k : nat) : Z := nth k gen_full_gaps 0.

Record inout_layout := { il_in : Z; il_out : Z; il_intra : Z; il_end : Z }.   (* first data row of each table *)
Definition inout_rows_of (c : computed) : inout_layout :=
  let r_in := gap 0 + gen_header_height in
  let r_out := r_in + Z.of_nat (length (cd_ins c)) + gap 1 + gen_header_height in
  let r_x := r_out + Z.of_nat (length (cd_outs c)) + gap 2 + gen_header_height in
  {| il_in := r_in; il_out := r_out; il_intra := r_x; il_end := r_x + Z.of_nat (length (cd_intras c)) |}.

Definition inout_writes (x : actx) : list cellw :=
  let c := ac_c x in let L := inout_rows_of c in
  fst (fill_header (il_in L - gen_header_height) gen_full_hdr_in)
  ++ table_rows (fun _ => gen_full_cols_in) (in_field x) (il_in L) 0 (cd_ins c)
  ++ fst (fill_header (il_out L - gen_header_height) gen_full_hdr_out)
  ++ table_rows (fun _ => gen_full_cols_out) (out_field x) (il_out L) 0 (cd_outs c)
  ++ fst (fill_header (il_intra L - gen_header_height) gen_full_hdr_intra)
  ++ table_rows (fun _ => gen_full_cols_intra) (intra_field x) (il_intra L) 0 (cd_intras c).

Definition inout_sheet (x : actx) : sheetw :=
  {| sw_name := inout_name (ac_name x);
     sw_rows := gen_full_inout_rows (Z.of_nat (length (t_ins (ac_txs x)))) (Z.of_nat (length (t_outs (ac_txs x))))
                                    (Z.of_nat (length (t_intras (ac_txs x))));
     sw_cols := gen_full_max_columns;
     sw_writes := inout_writes x |}.

(** the row map after the three tables of this asset (starting from what earlier assets left, unless cleared) *)
Definition lm_after (x : actx) (lm0 : assoc Z) : assoc Z :=
  let c := ac_c x in let L := inout_rows_of c in
  let lm := if ff_clears fl then [] else lm0 in
  lm_add x_row (il_intra L) (cd_intras c) (lm_add o_row (il_out L) (cd_outs c) (lm_add i_row (il_in L) (cd_ins c) lm)).

(** ----- Tax sheet *)
Definition yearly_field (x : actx) (k : nat) (y : yline) (_ : flink) (f : ffield) : payload :=
  match f with
  | F_y_year => PInt (y_year y)
  | F_asset => PStr (ac_name x)
  | F_y_gain => PNum (y_gain y)
  | F_cap_type => cap_type (y_long y)
  | F_y_type => PStr (type_text (y_type y))
  | F_y_crypto => PNum (of_grid (y_crypto y))
  | F_y_fiat => PNum (y_fiat y)
  | F_y_cost => PNum (y_cost y)
  | _ => bad
  end.

Definition bal_field (x : actx) (k : nat) (b : balance) (_ : flink) (f : ffield) : payload :=
  match f with
  | F_exch => PStr (exch_name (b_exch b))
  | F_holder => PStr (holder_name (b_holder b))
  | F_asset => PStr (ac_name x)
  | F_b_acquired => PNum (of_grid (b_acquired b))
  | F_b_sent => PNum (of_grid (b_sent b))
  | F_b_received => PNum (of_grid (b_received b))
  | F_b_final => PNum (of_grid (b_final b))
  | _ => bad
  end.

(** totals: Dict[holder, sum of final balances], printed sorted by holder name *)
Definition holder_totals (bl : list balance) : list (Z * Z) :=
  let m := fold_left (fun (m : assoc Z) b => aset (b_holder b) (aget_d 0 (b_holder b) m + b_final b) m) bl [] in
  sort_leb (fun a b => str_leb (holder_name (fst a)) (holder_name (fst b))) m.

Definition total_field (x : actx) (k : nat) (t : Z * Z) (_ : flink) (f : ffield) : payload :=
  match f with
  | F_total_label => PLabel
  | F_holder => PStr (holder_name (fst t))
  | F_blank => PEmpty
  | F_total_value => PNum (of_grid (snd t))
  | _ => bad
  end.

Definition note (k n : nat) (amt change : Z) (asset : str) : str :=
  str_of_Z (Z.of_nat k) ++ [47] ++ str_of_Z (Z.of_nat n) ++ [58; 32] ++ fmt8 amt ++ s_of ++ fmt8 change ++ [32] ++ asset.

Definition drow := (gl * ((nat * nat) * option (nat * nat)))%type.     (* fraction, event label, lot label *)

Definition det_cols (d : drow) : list fcol :=
  gen_full_cols_det ++
  match g_lot (fst d) with
  | Some _ => gen_full_cols_det_lot
  | None => map (fun c => (c, L_none, F_blank))
                (map (fun k => fst gen_full_nolot_range + Z.of_nat k)
                     (seq 0 (Z.to_nat (snd gen_full_nolot_range - fst gen_full_nolot_range))))
  end.

Definition det_field (x : actx) (lm : assoc Z) (k : nat) (d : drow) (lk : flink) (f : ffield) : payload :=
  let g := fst d in let ev := g_ev g in
  let name := ac_name x in
  let inner :=
    match f with
    | F_g_amount => PNum (of_grid (g_amt g))
    | F_asset => PStr name
    | F_g_running => PNum (of_grid (gl_running_of g (combine (cd_all_gls (ac_c x)) (cd_gl_running (ac_c x))) 0))
    | F_g_gain => pnum_o (g_gain g)
    | F_cap_type => cap_type (g_long (rp_period inp) g)
    | F_blank => PEmpty
    | F_ev_ts => PTs (t_ts ev)
    | F_ev_type => PStr (table_type ev ++ s_slash ++ type_text (t_type ev))
    | F_ev_pct => pnum_o (gl_event_pct ev (g_amt g))
    | F_ev_fiat => pnum_o (g_proceeds g)
    | F_ev_spot => PNum (of_grid (t_spot ev))
    | F_ev_uid => PStr (uid_of x (t_class ev) (t_row ev))
    | F_ev_note => PStr (note (S (fst (fst (snd d)))) (snd (fst (snd d))) (g_amt g) (t_balance_change ev) name)
    | _ =>
      match g_lot g with
      | None => bad
      | Some l =>
        match f with
        | F_lot_ts => PTs (i_ts l)
        | F_lot_pct => pnum_o (gl_lot_pct ev (Some l) (g_amt g))
        | F_lot_fiat => pnum_o (gl_cost_basis ev (Some l) (g_amt g))
        | F_lot_fee => match gl_lot_pct ev (Some l) (g_amt g) with Some p => PNum (dmul (i_fiat_fee l) p) | None => bad end
        | F_lot_cost => pnum_o (g_cost g)
        | F_lot_spot => PNum (of_grid (i_spot l))
        | F_lot_uid => PStr (uid_of x 0 (i_row l))
        | F_lot_note =>
          match snd (snd d) with
          | Some (i, n) => PStr (note (S i) n (g_amt g) (in_crypto_balance_change l) name)
          | None => bad
          end
        | _ => bad
        end
      end
    end in
  match lk with
  | L_none => inner
  | L_event => linkp lm (inout_name name) (t_row ev) inner
  | L_lot => match g_lot g with Some l => linkp lm (inout_name name) (i_row l) inner | None => bad end
  | L_summary => bad
  end.

(** __tax_sheet_year_2_row[(asset, year)] = row_index + 1 whenever the event's year differs from the previous
    fraction's.  The dictionary is keyed by (asset, year) and the assets of one run are distinct dictionary
    keys, so an entry written for another asset can never be looked up: modelled as one map year -> row per asset. *)
Fixpoint ym_add (r : Z) (prev : Z) (l : list gl) (ym : assoc Z) : assoc Z :=
  match l with
  | [] => ym
  | g :: rest =>
    let y := g_year g in
    ym_add (r + 1) y rest (if y =? prev then ym else aset y (r + 1) ym)
  end.

Record tax_layout := { tl_gls : Z; tl_bal : Z; tl_tot : Z; tl_avg : Z; tl_det : Z; tl_end : Z }.
Definition tax_rows_of (c : computed) (n_tot : Z) : tax_layout :=
  let r_gls := gap 3 + gen_header_height in
  let r_bal := r_gls + Z.of_nat (length (cd_yearly c)) + gap 4 + gen_header_height in
  let r_tot := r_bal + Z.of_nat (length (cd_balances c)) in
  let r_avg := r_tot + n_tot + gap 5 in
  let r_det := r_avg + gen_full_avg_rows + gap 6 + gen_header_height in
  {| tl_gls := r_gls; tl_bal := r_bal; tl_tot := r_tot; tl_avg := r_avg; tl_det := r_det;
     tl_end := r_det + Z.of_nat (length (cd_gls c)) |}.

Definition drows (c : computed) : list drow := combine (cd_gls c) (combine (cd_evfrac c) (cd_lotfrac c)).

Definition tax_layout_of (x : actx) : tax_layout :=
  tax_rows_of (ac_c x) (Z.of_nat (length (holder_totals (cd_balances (ac_c x))))).

Definition tax_writes (x : actx) (lm : assoc Z) : list cellw :=
  let c := ac_c x in
  let tots := holder_totals (cd_balances c) in
  let L := tax_layout_of x in
  fst (fill_header (tl_gls L - gen_header_height) gen_full_hdr_gls)
  ++ table_rows (fun _ => gen_full_cols_gls) (yearly_field x) (tl_gls L) 0 (cd_yearly c)
  ++ fst (fill_header (tl_bal L - gen_header_height) gen_full_hdr_bal)
  ++ table_rows (fun _ => gen_full_cols_bal) (bal_field x) (tl_bal L) 0 (cd_balances c)
  ++ table_rows (fun _ => gen_full_cols_tot) (total_field x) (tl_tot L) 0 tots
  ++ map (fun ob : Z * bool => cw (tl_avg L + fst ob) 0 (if snd ob then PNum (cd_price c) else PLabel)) gen_full_avg_cells
  ++ fst (fill_header (tl_det L - gen_header_height) gen_full_hdr_det)
  ++ table_rows det_cols (det_field x lm) (tl_det L) 0 (drows c).

Definition tax_sheet (x : actx) (lm : assoc Z) : sheetw :=
  {| sw_name := tax_name (ac_name x);
     sw_rows := gen_full_tax_rows (Z.of_nat (length (cd_yearly (ac_c x)))) (Z.of_nat (length (cd_balances (ac_c x))))
                                  (Z.of_nat (length (cd_all_gls (ac_c x))));
     sw_cols := gen_full_max_columns;
     sw_writes := tax_writes x lm |}.

Definition ym_of (x : actx) : assoc Z :=
  ym_add (tl_det (tax_layout_of x)) 0 (cd_gls (ac_c x)) [].

(** ----- Summary sheet lines of one asset *)
Definition summary_field (x : actx) (ym : assoc Z) (k : nat) (y : yline) (lk : flink) (f : ffield) : payload :=
  let inner :=
    match f with
    | F_y_year => PInt (y_year y)
    | F_asset => PStr (ac_name x)
    | F_y_gain => PNum (y_gain y)
    | F_cap_type => cap_type (y_long y)
    | F_y_type => PStr (type_text (y_type y))
    | F_y_crypto => PNum (of_grid (y_crypto y))
    | F_y_fiat => PNum (y_fiat y)
    | F_y_cost => PNum (y_cost y)
    | _ => bad
    end in
  match lk with
  | L_summary => match aget (y_year y) ym with
                 | Some r => PLink (tax_name (ac_name x)) r inner
                 | None => inner           (* only reached when the lookup is guarded *)
                 end
  | L_none => inner
  | _ => bad
  end.

(** the unguarded lookup raises KeyError for a summary line whose (asset, year) has no detail row *)
Definition summary_key_error (x : actx) (ym : assoc Z) : bool :=
  negb (ff_guarded fl) &&
  existsb (fun lf : fcol => match lf with (_, L_summary, _) => true | _ => false end) gen_full_cols_sum &&
  existsb (fun y => negb (amem (y_year y) ym)) (cd_yearly (ac_c x)).

Definition summary_writes (x : actx) (ym : assoc Z) (r : Z) : list cellw :=
  table_rows (fun _ => gen_full_cols_sum) (summary_field x ym) r 0 (cd_yearly (ac_c x)).

(** ----- the whole run *)
Record gstate := {
  gs_lm : assoc Z;
  gs_srow : Z; gs_scap : Z;                 (* next Summary row, current Summary capacity *)
  gs_sheets : list sheetw;                  (* asset sheets so far, in file order *)
  gs_sum : list cellw }.                    (* Summary writes so far *)

Definition in_cap (rows cols : Z) (w : cellw) : bool :=
  (0 <=? cw_row w) && (cw_row w <? rows) && (0 <=? cw_col w) && (cw_col w <? cols).

Definition gen_asset (x : actx) (st : gstate) : fres gstate :=
  let c := ac_c x in
  let io := inout_sheet x in
  let lm := lm_after x (gs_lm st) in
  let tx := tax_sheet x lm in
  let scap := gs_scap st + Z.of_nat (length (cd_yearly c)) in       (* append_rows(new_lines) *)
  if negb (sheet_ok io) then RIndexError else
  if negb (sheet_ok tx) then RIndexError else
  let ym := ym_of x in
  if summary_key_error x ym then RKeyError else
  let sw := summary_writes x ym (gs_srow st) in
  if negb (forallb (in_cap scap (fe_summary_cols env)) sw) then RIndexError else
  ROk {| gs_lm := lm; gs_srow := gs_srow st + Z.of_nat (length (cd_yearly c)); gs_scap := scap;
         gs_sheets := gs_sheets st ++ [io; tx]; gs_sum := gs_sum st ++ sw |}.

Fixpoint gen_assets (aidx : Z) (l : list (rasset * computed)) (ex : list (assoc (str * str))) (st : gstate) : fres gstate :=
  match l with
  | [] => ROk st
  | (a, c) :: rest =>
    let x := {| ac_idx := aidx; ac_name := ra_name a; ac_txs := ra_txs a; ac_c := c; ac_extra := hd [] ex |} in
    match gen_asset x st with
    | ROk st' => gen_assets (aidx + 1) rest (tl ex) st'
    | RKeyError => RKeyError
    | RIndexError => RIndexError
    | RErr e => RErr e
    end
  end.

Fixpoint legend_page (r : Z) (rows : list (list bool)) : list cellw :=
  match rows with
  | [] => []
  | row :: t => map (fun jb : nat * bool => cw r (Z.of_nat (fst jb)) (lab (snd jb))) (combine (seq 0 (length row)) row)
                ++ legend_page (r + 1) t
  end.

Definition day_cell (d : Z) (unset : Z) : payload := if d =? unset then PStr s_non_specified else PDay d.

Definition legend_writes (methods : str) : list cellw :=
  let m := gen_full_legend_method_row in
  legend_page 0 gen_full_legend
  ++ [cw m 1 (PStr methods); cw (m + 1) 1 (day_cell (rp_from inp) MIN_DAY); cw (m + 2) 1 (day_cell (rp_to inp) MAX_DAY)].

Definition full_report : fres (list sheetw) :=
  match computed_all inp (rp_assets inp) with
  | Err e => RErr e
  | Ok acs =>
    match legend_methods fl (rp_sched inp) with
    | RKeyError => RKeyError
    | RIndexError => RIndexError
    | RErr e => RErr e
    | ROk methods =>
      let lw := legend_writes methods in
      if negb (forallb (in_cap (fe_legend_rows env) (fe_legend_cols env)) lw) then RIndexError else
      let '(hw, srow) := fill_header 0 gen_full_hdr_sum in
      if negb (forallb (in_cap (fe_summary_rows env) (fe_summary_cols env)) hw) then RIndexError else
      match gen_assets 0 acs (fe_extra env)
              {| gs_lm := []; gs_srow := srow; gs_scap := fe_summary_rows env; gs_sheets := []; gs_sum := hw |} with
      | ROk st =>
        ROk ({| sw_name := tr gen_full_msg_legend; sw_rows := fe_legend_rows env; sw_cols := fe_legend_cols env; sw_writes := lw |}
             :: {| sw_name := tr gen_full_msg_summary; sw_rows := gs_scap st; sw_cols := fe_summary_cols env; sw_writes := gs_sum st |}
             :: gs_sheets st)
      | RKeyError => RKeyError
      | RIndexError => RIndexError
      | RErr e => RErr e
      end
    end
  end.
End Gen.
