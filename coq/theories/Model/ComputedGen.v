(** Interpreters of the tables the translator reads from computed_data.py on every run (Model/GeneratedTie.v, fragment
    computed): running sums, yearly summary, sold percentage, price per unit.  Each is the corresponding hand-written
    function of Model/Computed.v with the choices the source makes (which set a loop iterates, its to-date cut, the
    attributes accumulated, the key, the year filter) taken from the generated tables instead of being written down.
    Proofs/ComputedGenProofs.v proves that, for the tables generated from the CURRENT source, they are the hand-written
    functions.  Definitions only. *)
From RP2V Require Import Base.Prelude Base.Time Base.Dec Base.Sorting Base.Assoc Model.Types Model.Generated Model.GeneratedTie
  Model.Txn Model.Matcher Model.Pipeline Model.Computed.
Open Scope Z_scope.

(** the entries a loop sees: the unfiltered set or the window view of it (abstract_entry_set.py's iterator), then the
    loop's own to-date test *)
Definition cd_select {A} (day : A -> Z) (from_day to_day : Z) (s : cd_loop_set) (l : list A) : list A :=
  match s with LS_unfiltered => l | LS_filtered => iter_window day from_day to_day l end.
Definition cd_cut {A} (day : A -> Z) (to_day : Z) (c : option bool) (l : list A) : list A :=
  match c with
  | None => l
  | Some true => take_until day to_day l                               (* break *)
  | Some false => filter (fun x => negb (to_day <? day x)) l           (* continue *)
  end.
Definition cd_seen {A} (day : A -> Z) (from_day to_day : Z) (s : cd_loop_set) (c : option bool) (l : list A) : list A :=
  cd_cut day to_day c (cd_select day from_day to_day s l).

(** crypto-valued attributes per class (the translator rejects an attribute the class does not have; 0 is never reached) *)
Definition in_field_val (f : cd_field) (a : intx) : Z :=
  match f with
  | CF_crypto_in => i_crypto_in a | CF_crypto_fee => i_crypto_fee a | CF_crypto_balance_change => in_crypto_balance_change a
  | CF_crypto_taxable_amount => in_crypto_taxable_amount a | CF_crypto_deduction => gen_in_crypto_deduction a | _ => 0
  end.
Definition out_field_val (f : cd_field) (a : outtx) : Z :=
  match f with
  | CF_crypto_out_no_fee => o_crypto_out_no_fee a | CF_crypto_fee => o_crypto_fee a | CF_crypto_out_with_fee => o_crypto_out_with_fee a
  | CF_crypto_balance_change => out_crypto_balance_change a | CF_crypto_taxable_amount => out_crypto_taxable_amount a
  | CF_crypto_deduction => gen_out_crypto_deduction a | _ => 0
  end.
Definition intra_field_val (f : cd_field) (a : intratx) : Z :=
  match f with
  | CF_crypto_sent => x_crypto_sent a | CF_crypto_received => x_crypto_received a | CF_crypto_fee => x_crypto_fee a
  | CF_crypto_balance_change => intra_crypto_balance_change a | CF_crypto_taxable_amount => intra_crypto_taxable_amount a
  | CF_crypto_deduction => gen_intra_crypto_deduction a | _ => 0
  end.
Definition gl_crypto_val (f : cd_field) (g : gl) : Z := match f with CF_crypto_amount => g_amt g | _ => 0 end.
Definition in_fiat_val (f : cd_fiat_field) (a : intx) : dec :=
  match f with CFF_fiat_in_with_fee => i_fiat_in_with_fee a | CFF_fiat_in_no_fee => i_fiat_in_no_fee a | CFF_fiat_fee => i_fiat_fee a end.

(** ---------- running sums: `acc = ZERO; for t in <set>: acc += t.<attr>; self.__d[t] = acc` *)
Definition run_gen {A} (day : A -> Z) (val : cd_field -> A -> Z) (r : cd_run) (from_day to_day : Z) (l : list A) : list Z :=
  let '(s, c, f) := r in running (val f) 0 (cd_seen day from_day to_day s c l).

Definition run_in_gen := run_gen (fun a => local_day (i_ts a)) in_field_val gen_run_in.
Definition run_in_fee_gen := run_gen (fun a => local_day (i_ts a)) in_field_val gen_run_in_fee.
Definition run_out_gen := run_gen (fun a => local_day (o_ts a)) out_field_val gen_run_out.
Definition run_out_fee_gen := run_gen (fun a => local_day (o_ts a)) out_field_val gen_run_out_fee.
Definition run_intra_fee_gen := run_gen (fun a => local_day (x_ts a)) intra_field_val gen_run_intra_fee.
Definition run_gl_gen := run_gen g_day gl_crypto_val gen_run_gl.

(** ---------- yearly summary *)
Definition gl_dec_val (f : gl_field) (g : gl) : option dec :=
  match f with
  | GF_proceeds => g_proceeds g | GF_cost_basis => g_cost g | GF_gain => g_gain g
  | GF_lot_pct => gl_lot_pct (g_ev g) (g_lot g) (g_amt g) | GF_event_pct => gl_event_pct (g_ev g) (g_amt g)
  | GF_crypto_amount => None
  end.
Definition gl_z_val (f : gl_field) (g : gl) : option Z := match f with GF_crypto_amount => Some (g_amt g) | _ => None end.
Definition y_field_eqb (a b : y_field) : bool :=
  match a, b with YF_crypto, YF_crypto | YF_fiat, YF_fiat | YF_cost, YF_cost | YF_gain, YF_gain => true | _, _ => false end.
Definition yacc_field (yf : y_field) : option gl_field :=
  match find (fun p => y_field_eqb (fst p) yf) gen_yearly_acc with Some p => Some (snd p) | None => None end.
Definition yacc_z (yf : y_field) (g : gl) : option Z := match yacc_field yf with Some f => gl_z_val f g | None => None end.
Definition yacc_d (yf : y_field) (g : gl) : option dec := match yacc_field yf with Some f => gl_dec_val f g | None => None end.

(** the key tuple (year, asset, transaction_type, is_long_term_capital_gains); one asset per computation *)
Definition yk_year (c : yk_comp) (g : gl) : option Z := match c with YK_event_local_year => Some (g_year g) | _ => None end.
Definition yk_type (c : yk_comp) (g : gl) : option ttype := match c with YK_event_type => Some (t_type (g_ev g)) | _ => None end.
Definition yk_long (period : Z) (c : yk_comp) (g : gl) : option bool := match c with YK_is_long => Some (g_long period g) | _ => None end.
Definition ykey_gen (period : Z) (g : gl) : option (Z * ttype * bool) :=
  match gen_yearly_key with
  | [cy; YK_asset; ct; cl] =>
    match yk_year cy g, yk_type ct g, yk_long period cl g with
    | Some y, Some ty, Some lg => Some (y, ty, lg)
    | _, _, _ => None
    end
  | _ => None
  end.

Definition yearly_add_gen (period : Z) (acc : result (assoc yline)) (g : gl) : result (assoc yline) :=
  match acc with
  | Err e => Err e
  | Ok m =>
    match ykey_gen period g, yacc_z YF_crypto g with
    | Some (year, ty, long), Some amt =>
      match yacc_d YF_fiat g, yacc_d YF_cost g, yacc_d YF_gain g with
      | Some p, Some c, Some gn =>
        let k := ykey year ty long in
        let old := aget_d {| y_year := year; y_type := ty; y_long := long; y_crypto := 0; y_fiat := dzero; y_cost := dzero; y_gain := dzero |} k m in
        Ok (aset k {| y_year := year; y_type := ty; y_long := long; y_crypto := y_crypto old + amt;
                      y_fiat := dadd (y_fiat old) p; y_cost := dadd (y_cost old) c; y_gain := dadd (y_gain old) gn |} m)
      | _, _, _ => Err EInternal
      end
    | _, _ => Err EInternal
    end
  end.

Definition y_filter_ok (from_year to_year : Z) (l : yline) (f : y_filter) : bool :=
  match f with YFL_ge_from_year => from_year <=? y_year l | YFL_le_to_year => y_year l <=? to_year end.

Definition yearly_list_gen (period from_day to_day : Z) (gls : list gl) : result (list yline) :=
  match fold_left (yearly_add_gen period) (cd_seen g_day from_day to_day gen_yearly_source gen_yearly_cut gls) (Ok []) with
  | Err e => Err e
  | Ok m => Ok (filter (fun l => forallb (y_filter_ok (year_of_day from_day) (year_of_day to_day) l) gen_yearly_filter)
                       (sort_by (fun l => - yline_key l) (map snd m)))
  end.

(** ---------- sold percentage per lot *)
Definition sold_skip_eqb (a b : sold_skip) : bool :=
  match a, b with SS_no_lot, SS_no_lot | SS_lot_before_from, SS_lot_before_from | SS_lot_after_to, SS_lot_after_to => true | _, _ => false end.
Definition sold_skips (x : sold_skip) : bool := existsb (sold_skip_eqb x) gen_sold_skip.

Definition sold_pct_add_gen (from_day to_day : Z) (acc : result (assoc dec)) (g : gl) : result (assoc dec) :=
  match acc with
  | Err e => Err e
  | Ok m =>
    match g_lot g with
    | None => if sold_skips SS_no_lot then Ok m else Err EInternal
    | Some l =>
      let d := local_day (i_ts l) in
      if (sold_skips SS_lot_before_from && (d <? from_day)) || (sold_skips SS_lot_after_to && (to_day <? d)) then Ok m else
      match gl_dec_val gen_sold_field g with
      | Some p => Ok (aset (i_row l) (dadd (aget_d dzero (i_row l) m) p) m)
      | None => Err EInternal
      end
    end
  end.

Definition sold_pct_gen (from_day to_day : Z) (gls : list gl) : result (assoc dec) :=
  fold_left (sold_pct_add_gen from_day to_day) (cd_seen g_day from_day to_day gen_sold_source gen_sold_cut gls) (Ok []).

(** ---------- average price per unit *)
Definition price_per_unit_gen (from_day to_day : Z) (ins : list intx) : result dec :=
  let l := cd_seen (fun a => local_day (i_ts a)) from_day to_day gen_ppu_source gen_ppu_cut ins in
  match l with
  | [] => Ok dzero
  | _ =>
    let c := fold_left (fun acc a => acc + in_field_val gen_ppu_den a) l 0 in
    let f := fold_left (fun acc a => dadd acc (in_fiat_val gen_ppu_num a)) l dzero in
    match ddiv f (of_grid c) with Some d => Ok d | None => Err EInternal end
  end.
