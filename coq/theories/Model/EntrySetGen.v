(** Interpreter of the tables the translator reads from abstract_entry_set.py on every run (Model/GeneratedTie.v, fragment
    entry_set): the per-entry tests of `EntrySetIterator.__next__`, the optional skipping loop of its `__init__`, the sort key,
    and the statements of `AbstractEntrySet.duplicate` / `__iter__` with the sort helpers inlined.
    Proofs/EntrySetGenProofs.v proves that, for the tables generated from the CURRENT source, the traversal is
    [iter_window] of Model/Computed.v (on the entry's own calendar day) and that a duplicate is re-sorted under its own
    to-date.  Definitions only. *)
From RP2V Require Import Base.Prelude Base.Time Model.GeneratedTie.
Open Scope Z_scope.

(** ---------- the quantities a test compares, all as integers.
    Days are day numbers since 1970-01-01; datetimes are microseconds since 1970-01-01T00:00 on their own time line (the
    translator only lets through pairs Python can compare: date/date, aware/aware = instants, naive/naive = wall clock). *)
Definition it_key_val (k : it_key) (t : tstamp) : Z :=
  match k with
  | IK_local_day => local_day t                                   (* t.date(): the entry's own calendar day *)
  | IK_utc_day => utc_us t / US_PER_DAY                           (* t.astimezone(utc).date() *)
  | IK_instant => utc_us t                                        (* aware datetimes compare as instants *)
  | IK_wall_clock => utc_us t + off_s t * 1000000                 (* t.replace(tzinfo=None) *)
  end.
Definition it_which_val (from_ to_ : Z) (w : it_which) : Z := match w with IW_from => from_ | IW_to => to_ end.
Definition it_bound_val (from_ to_ : Z) (b : it_bound) : Z :=
  match b with
  | IB_date w => it_which_val from_ to_ w
  | IB_datetime w tod _ => it_which_val from_ to_ w * US_PER_DAY + tod
  end.
(** [a <cmp> b], the entry's quantity on the left *)
Definition it_cmp_holds (c : it_cmp) (a b : Z) : bool :=
  match c with IC_gt => b <? a | IC_ge => b <=? a | IC_lt => a <? b | IC_le => a <=? b end.
Definition it_cond_holds (from_ to_ : Z) (t : tstamp) (c : it_cond) : bool :=
  match c with
  | IT_always => true
  | IT_cmp k c b => it_cmp_holds c (it_key_val k t) (it_bound_val from_ to_ b)
  end.

(** what `__next__` does with one entry: the first test that fires decides *)
Fixpoint it_decide_list (tests : list (it_cond * it_action)) (fall : it_action) (from_ to_ : Z) (t : tstamp) : it_action :=
  match tests with
  | [] => fall
  | (c, a) :: r => if it_cond_holds from_ to_ t c then a else it_decide_list r fall from_ to_ t
  end.
Definition it_decide (from_ to_ : Z) (t : tstamp) : it_action := it_decide_list gen_it_tests gen_it_fallthrough from_ to_ t.

Section Run.
Context {A : Type} (ts : A -> tstamp) (from_ to_ : Z).
(** one `for x in set` traversal: the entries returned until the first StopIteration *)
Fixpoint it_run (l : list A) : list A :=
  match l with
  | [] => []
  | x :: r => match it_decide from_ to_ (ts x) with
              | IA_stop => []
              | IA_return => x :: it_run r
              | IA_skip => it_run r
              end
  end.
(** `__init__`: `while index < size and <cond of entry_list[index]>: index += 1` *)
Fixpoint it_skip_leading (c : it_cond) (l : list A) : list A :=
  match l with
  | [] => []
  | x :: r => if it_cond_holds from_ to_ (ts x) c then it_skip_leading c r else l
  end.
Definition iter_window_gen (l : list A) : list A :=
  it_run (match gen_it_prelude with None => l | Some c => it_skip_leading c l end).
End Run.

(** ---------- the life cycle of a filtered copy.
    The state of an entry set as far as the window is concerned: its two bounds, the `__is_sorted` flag, and the to-date
    under which `_sort_entries` last ran.  The last one matters because `copy(self)` is shallow: the copy shares the entry
    list and every dictionary `_sort_entries` fills (parent links; in GainLossSet the fraction numbering, which is cut at
    `self.to_date`) with the original, so whichever of the two sorted last determines what both report. *)
Record es_state := { es_from : Z; es_to : Z; es_sorted : bool; es_derived_to : option Z }.

Definition MIN_DAY : Z := -719162.    (* date(1, 1, 1) *)
Definition MAX_DAY : Z := 2932896.    (* date(9999, 12, 31) *)
Definition es_src_val (from_arg to_arg : Z) (v : es_src) : Z :=
  match v with EP_from_arg => from_arg | EP_to_arg => to_arg | EP_min_date => MIN_DAY | EP_max_date => MAX_DAY end.
Definition es_sort_now (st : es_state) : es_state :=
  {| es_from := es_from st; es_to := es_to st; es_sorted := es_sorted st; es_derived_to := Some (es_to st) |}.
Definition es_set_flag (b : bool) (st : es_state) : es_state :=
  {| es_from := es_from st; es_to := es_to st; es_sorted := b; es_derived_to := es_derived_to st |}.
Definition es_exec (from_arg to_arg : Z) (st : es_state) (s : es_stmt) : es_state :=
  match s with
  | ES_set EF_from v => {| es_from := es_src_val from_arg to_arg v; es_to := es_to st; es_sorted := es_sorted st; es_derived_to := es_derived_to st |}
  | ES_set EF_to v => {| es_from := es_from st; es_to := es_src_val from_arg to_arg v; es_sorted := es_sorted st; es_derived_to := es_derived_to st |}
  | ES_flag b => es_set_flag b st
  | ES_sort => es_sort_now st
  | ES_sort_if_unsorted => if es_sorted st then st else es_set_flag true (es_sort_now st)
  end.
Definition es_run (prog : list es_stmt) (from_arg to_arg : Z) (st : es_state) : es_state := fold_left (es_exec from_arg to_arg) prog st.

(** `s.duplicate(from_date, to_date)` followed by `iter(...)` on the copy *)
Definition duplicate_gen (from_arg to_arg : Z) (st : es_state) : es_state := es_run gen_es_duplicate from_arg to_arg st.
Definition iter_state_gen (st : es_state) : es_state := es_run gen_es_iter 0 0 st.

(** what a loop over `s.duplicate(from_date, to_date)` sees, and the to-date the derived fields were computed under *)
Definition window_view_gen {A : Type} (ts : A -> tstamp) (from_arg to_arg : Z) (st : es_state) (l : list A) : list A * option Z :=
  let st' := iter_state_gen (duplicate_gen from_arg to_arg st) in
  (iter_window_gen ts (es_from st') (es_to st') l, es_derived_to st').
