(** Decoders of the flat integer streams the harness sends (and encoders of results). *)
From RP2V Require Import Base.Prelude Base.Time Base.Dec Model.Types Model.Generated Model.Txn Model.Matcher Model.Pipeline.
Open Scope Z_scope.

Definition rd (A : Type) := list Z -> option (A * list Z).

Definition rd_z : rd Z := fun s => match s with x :: t => Some (x, t) | [] => None end.
Definition rd_opt : rd (option Z) := fun s =>
  match s with f :: v :: t => Some (if f =? 1 then Some v else None, t) | _ => None end.
Definition rd_ts : rd tstamp := fun s =>
  match s with u :: o :: t => Some ({| utc_us := u; off_s := o |}, t) | _ => None end.
Definition rd_ttype : rd ttype := fun s =>
  match s with c :: t => match ttype_of_code c with Some ty => Some (ty, t) | None => None end | [] => None end.

Fixpoint rd_n {A} (n : nat) (r : rd A) : rd (list A) := fun s =>
  match n with
  | O => Some ([], s)
  | S k => match r s with
           | None => None
           | Some (x, s') => match rd_n k r s' with Some (xs, s'') => Some (x :: xs, s'') | None => None end
           end
  end.
Definition rd_list {A} (r : rd A) : rd (list A) := fun s =>
  match s with n :: t => rd_n (Z.to_nat n) r t | [] => None end.

Definition rd_in : rd raw_in := fun s =>
  match s with
  | row :: u :: o :: ex :: ho :: ty :: spot :: cin :: f1 :: v1 :: f2 :: v2 :: f3 :: v3 :: f4 :: v4 :: t =>
    match ttype_of_code ty with
    | None => None
    | Some ty' =>
      let op f v := if f =? 1 then Some v else None in
      Some ({| ri_row := row; ri_ts := {| utc_us := u; off_s := o |}; ri_exch := ex; ri_holder := ho; ri_type := ty';
               ri_spot := spot; ri_crypto_in := cin; ri_crypto_fee := op f1 v1; ri_fiat_in_no_fee := op f2 v2;
               ri_fiat_in_with_fee := op f3 v3; ri_fiat_fee := op f4 v4 |}, t)
    end
  | _ => None
  end.

Definition rd_out : rd raw_out := fun s =>
  match s with
  | row :: u :: o :: ex :: ho :: ty :: spot :: nofee :: fee :: f1 :: v1 :: f2 :: v2 :: f3 :: v3 :: t =>
    match ttype_of_code ty with
    | None => None
    | Some ty' =>
      let op f v := if f =? 1 then Some v else None in
      Some ({| ro_row := row; ro_ts := {| utc_us := u; off_s := o |}; ro_exch := ex; ro_holder := ho; ro_type := ty';
               ro_spot := spot; ro_crypto_out_no_fee := nofee; ro_crypto_fee := fee;
               ro_crypto_out_with_fee := op f1 v1; ro_fiat_out_no_fee := op f2 v2; ro_fiat_fee := op f3 v3 |}, t)
    end
  | _ => None
  end.

Definition rd_intra : rd raw_intra := fun s =>
  match s with
  | row :: u :: o :: fe :: fh :: te :: th :: f1 :: v1 :: sent :: recv :: t =>
    Some ({| rx_row := row; rx_ts := {| utc_us := u; off_s := o |}; rx_from_exch := fe; rx_from_holder := fh;
             rx_to_exch := te; rx_to_holder := th; rx_spot := if f1 =? 1 then Some v1 else None;
             rx_crypto_sent := sent; rx_crypto_received := recv |}, t)
  | _ => None
  end.

Definition meth_of_code (c : Z) : meth := if c =? 0 then Fifo else if c =? 1 then Lifo else if c =? 2 then Hifo else Lofo.
Definition rd_sched_entry : rd (Z * meth) := fun s =>
  match s with y :: m :: t => Some ((y, meth_of_code m), t) | _ => None end.

Definition rd_hist : rd hist := fun s =>
  match rd_list rd_in s with
  | None => None
  | Some (ins, s1) =>
    match rd_list rd_out s1 with
    | None => None
    | Some (outs, s2) =>
      match rd_list rd_intra s2 with
      | None => None
      | Some (intras, s3) => Some ({| h_ins := ins; h_outs := outs; h_intras := intras |}, s3)
      end
    end
  end.

Definition enc_opt (o : option Z) : list Z := match o with Some v => [1; v] | None => [0; 0] end.
Definition enc_frac (f : fraction) : list Z := f_ev f :: enc_opt (f_lot f) ++ [f_amt f].
Definition enc_fracs (r : result (list fraction)) : list Z :=
  match r with
  | Err e => [err_code e]
  | Ok fs => 0 :: Z.of_nat (length fs) :: flat_map enc_frac fs
  end.

(** ---------- ComputedData encoding *)
From RP2V Require Import Base.Assoc Model.Computed.

Definition enc_dec (d : dec) : list Z := [fst d; snd d].
Definition enc_odec (o : option dec) : list Z := match o with Some d => 1 :: enc_dec d | None => [0; 0; 0] end.
Definition enc_list {A} (f : A -> list Z) (l : list A) : list Z := Z.of_nat (length l) :: flat_map f l.
Definition enc_bool (b : bool) : Z := if b then 1 else 0.
Definition enc_lot (o : option intx) : list Z := match o with Some l => [1; i_row l] | None => [0; 0] end.

Definition enc_gl_full (period : Z) (x : gl * ((nat * nat) * option (nat * nat))) : list Z :=
  let '(g, (evf, lotf)) := x in
  t_row (g_ev g) :: enc_lot (g_lot g) ++ [g_amt g] ++ enc_odec (g_proceeds g) ++ enc_odec (g_cost g) ++ enc_odec (g_gain g)
  ++ [enc_bool (g_long period g); Z.of_nat (fst evf); Z.of_nat (snd evf)]
  ++ (match lotf with Some (i, n) => [1; Z.of_nat i; Z.of_nat n] | None => [0; 0; 0] end)
  ++ enc_odec (gl_event_pct (g_ev g) (g_amt g)) ++ enc_odec (gl_lot_pct (g_ev g) (g_lot g) (g_amt g)).

Definition enc_yline (l : yline) : list Z :=
  [y_year l; ttype_code (y_type l); enc_bool (y_long l); y_crypto l] ++ enc_dec (y_fiat l) ++ enc_dec (y_cost l) ++ enc_dec (y_gain l).
Definition enc_balance (b : balance) : list Z := [b_exch b; b_holder b; b_final b; b_acquired b; b_sent b; b_received b].

Definition enc_computed (period : Z) (c : computed) : list Z :=
  0 :: enc_list (fun e => [t_row e; t_class e; ttype_code (t_type e); enc_bool (t_is_earning e); t_balance_change e]) (cd_events c)
  ++ enc_list (enc_gl_full period) (combine (cd_gls c) (combine (cd_evfrac c) (cd_lotfrac c)))
  ++ enc_list (fun x => t_row (g_ev (fst x)) :: enc_lot (g_lot (fst x)) ++ [snd x]) (combine (cd_all_gls c) (cd_gl_running c))
  ++ enc_list enc_yline (cd_yearly c)
  ++ enc_list enc_balance (cd_balances c)
  ++ enc_dec (cd_price c)
  ++ enc_list (fun a => i_row a :: enc_dec (i_fiat_in_no_fee a) ++ enc_dec (i_fiat_in_with_fee a) ++ enc_dec (i_fiat_fee a)) (cd_ins c)
  ++ enc_list (fun x => let '(r, a, b) := x in [r; a; b]) (cd_in_running c)
  ++ enc_list (fun a => o_row a :: enc_dec (o_fiat_out_no_fee a) ++ enc_dec (o_fiat_fee a) ++ [o_crypto_out_with_fee a]) (cd_outs c)
  ++ enc_list (fun x => let '(r, a, b) := x in [r; a; b]) (cd_out_running c)
  ++ enc_list (fun a => x_row a :: enc_dec (x_fiat_fee a) ++ [enc_bool (intra_is_taxable a)]) (cd_intras c)
  ++ enc_list (fun x => [fst x; snd x]) (cd_intra_running c)
  ++ enc_list (fun x => fst x :: enc_dec (snd x)) (cd_sold_pct c).

Definition rd_str : rd str := rd_list rd_z.
Definition rd_frac : rd fraction := fun s =>
  match s with
  | ev :: has :: lot :: amt :: t => Some ({| f_ev := ev; f_lot := if has =? 1 then Some lot else None; f_amt := amt |}, t)
  | _ => None
  end.

(** ---------- parser encoding *)
From RP2V Require Import Model.Parser.

Definition rd_pair : rd (Z * Z) := fun s => match s with a :: b :: t => Some ((a, b), t) | _ => None end.
Definition rd_cell : rd cell := fun s =>
  match s with
  | 0 :: t => Some (CEmpty, t)
  | 1 :: t => match rd_str t with Some (x, t') => Some (CStr x, t') | None => None end
  | 2 :: n :: d :: t => Some (CNum n d, t)
  | 3 :: b :: t => Some (CBool (b =? 1), t)
  | _ => None
  end.
Definition rd_tsent : rd (str * ts_res) := fun s =>
  match rd_str s with
  | None => None
  | Some (x, k :: u :: o :: t) =>
    Some ((x, if k =? 2 then TsAware {| utc_us := u; off_s := o |} else if k =? 1 then TsNaive else TsBad), t)
  | _ => None
  end.

Definition enc_intx (a : intx) : list Z :=
  [i_row a; utc_us (i_ts a); off_s (i_ts a); i_exch a; i_holder a; ttype_code (i_type a); i_spot a; i_crypto_in a; i_crypto_fee a]
  ++ enc_dec (i_fiat_in_no_fee a) ++ enc_dec (i_fiat_in_with_fee a) ++ enc_dec (i_fiat_fee a).
Definition enc_outtx (a : outtx) : list Z :=
  [o_row a; utc_us (o_ts a); off_s (o_ts a); o_exch a; o_holder a; ttype_code (o_type a); o_spot a;
   o_crypto_out_no_fee a; o_crypto_fee a; o_crypto_out_with_fee a]
  ++ enc_dec (o_fiat_out_no_fee a) ++ enc_dec (o_fiat_fee a) ++ enc_dec (o_fiat_out_with_fee a).
Definition enc_intratx (a : intratx) : list Z :=
  [x_row a; utc_us (x_ts a); off_s (x_ts a); x_from_exch a; x_from_holder a; x_to_exch a; x_to_holder a; x_spot a;
   x_crypto_sent a; x_crypto_received a; x_crypto_fee a] ++ enc_dec (x_fiat_fee a).
