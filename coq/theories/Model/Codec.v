(** Decoders of the flat integer streams the harness sends (and encoders of results). *)
From RP2V Require Import Base.Prelude Base.Time Base.Dec Model.Types Model.Generated Model.Txn Model.Matcher Model.Pipeline.
Open Scope Z_scope.

Definition rd (A : Type) := list Z -> option (A * list Z).

Definition rd_z : rd Z := fun s => match s with x :: t => Some (x, t) | [] => None end.
Definition rd_opt : rd (option Z) := fun s =>
  match s with f :: v :: t => Some (if f =? 1 then Some v else None, t) | _ => None end.
Definition rd_ts : rd tstamp := fun s =>
  match s with u :: o :: t => Some ({| utc_us := u; off_s := o |}, t) | _ => None end.
Definition rd_ttype : rd ttype := fun s =>
  match s with c :: t => match ttype_of_code c with Some ty => Some (ty, t) | None => None end | [] => None end.

Fixpoint rd_n {A} (n : nat) (r : rd A) : rd (list A) := fun s =>
  match n with
  | O => Some ([], s)
  | S k => match r s with
           | None => None
           | Some (x, s') => match rd_n k r s' with Some (xs, s'') => Some (x :: xs, s'') | None => None end
           end
  end.
Definition rd_list {A} (r : rd A) : rd (list A) := fun s =>
  match s with n :: t => rd_n (Z.to_nat n) r t | [] => None end.

Definition rd_in : rd raw_in := fun s =>
  match s with
  | row :: u :: o :: ex :: ho :: ty :: spot :: cin :: f1 :: v1 :: f2 :: v2 :: f3 :: v3 :: f4 :: v4 :: t =>
    match ttype_of_code ty with
    | None => None
    | Some ty' =>
      let op f v := if f =? 1 then Some v else None in
      Some ({| ri_row := row; ri_ts := {| utc_us := u; off_s := o |}; ri_exch := ex; ri_holder := ho; ri_type := ty';
               ri_spot := spot; ri_crypto_in := cin; ri_crypto_fee := op f1 v1; ri_fiat_in_no_fee := op f2 v2;
               ri_fiat_in_with_fee := op f3 v3; ri_fiat_fee := op f4 v4 |}, t)
    end
  | _ => None
  end.

Definition rd_out : rd raw_out := fun s =>
  match s with
  | row :: u :: o :: ex :: ho :: ty :: spot :: nofee :: fee :: f1 :: v1 :: f2 :: v2 :: f3 :: v3 :: t =>
    match ttype_of_code ty with
    | None => None
    | Some ty' =>
      let op f v := if f =? 1 then Some v else None in
      Some ({| ro_row := row; ro_ts := {| utc_us := u; off_s := o |}; ro_exch := ex; ro_holder := ho; ro_type := ty';
               ro_spot := spot; ro_crypto_out_no_fee := nofee; ro_crypto_fee := fee;
               ro_crypto_out_with_fee := op f1 v1; ro_fiat_out_no_fee := op f2 v2; ro_fiat_fee := op f3 v3 |}, t)
    end
  | _ => None
  end.

Definition rd_intra : rd raw_intra := fun s =>
  match s with
  | row :: u :: o :: fe :: fh :: te :: th :: f1 :: v1 :: sent :: recv :: t =>
    Some ({| rx_row := row; rx_ts := {| utc_us := u; off_s := o |}; rx_from_exch := fe; rx_from_holder := fh;
             rx_to_exch := te; rx_to_holder := th; rx_spot := if f1 =? 1 then Some v1 else None;
             rx_crypto_sent := sent; rx_crypto_received := recv |}, t)
  | _ => None
  end.

Definition meth_of_code (c : Z) : meth := if c =? 0 then Fifo else if c =? 1 then Lifo else if c =? 2 then Hifo else Lofo.
Definition rd_sched_entry : rd (Z * meth) := fun s =>
  match s with y :: m :: t => Some ((y, meth_of_code m), t) | _ => None end.

Definition rd_hist : rd hist := fun s =>
  match rd_list rd_in s with
  | None => None
  | Some (ins, s1) =>
    match rd_list rd_out s1 with
    | None => None
    | Some (outs, s2) =>
      match rd_list rd_intra s2 with
      | None => None
      | Some (intras, s3) => Some ({| h_ins := ins; h_outs := outs; h_intras := intras |}, s3)
      end
    end
  end.

Definition enc_opt (o : option Z) : list Z := match o with Some v => [1; v] | None => [0; 0] end.
Definition enc_frac (f : fraction) : list Z := f_ev f :: enc_opt (f_lot f) ++ [f_amt f].
Definition enc_fracs (r : result (list fraction)) : list Z :=
  match r with
  | Err e => [err_code e]
  | Ok fs => 0 :: Z.of_nat (length fs) :: flat_map enc_frac fs
  end.
