(** Vocabulary for property C17, "unchanged (up to row numbers) when tables are reordered within a sheet": renaming of row
    ids in transactions / transaction sets / fractions, two sheets holding the same tables in different orders, parsed
    results that are equal up to row ids, and the step from the parser's result to the time-sorted transaction sets.
    Definitions only (proofs: Proofs/TableOrder.v). *)
From Coq Require Import Permutation.
From RP2V Require Import Base.Prelude Base.Time Base.Dec Base.Sorting Model.Types Model.Generated Model.Txn
  Model.Matcher Model.Pipeline Model.Parser Model.Render.
Open Scope Z_scope.

(** * renaming of row ids *)
Definition rn_in (rho : Z -> Z) (a : intx) : intx :=
  {| i_row := rho (i_row a); i_ts := i_ts a; i_exch := i_exch a; i_holder := i_holder a; i_type := i_type a;
     i_spot := i_spot a; i_crypto_in := i_crypto_in a; i_crypto_fee := i_crypto_fee a;
     i_fiat_in_no_fee := i_fiat_in_no_fee a; i_fiat_in_with_fee := i_fiat_in_with_fee a; i_fiat_fee := i_fiat_fee a |}.
Definition rn_out (rho : Z -> Z) (o : outtx) : outtx :=
  {| o_row := rho (o_row o); o_ts := o_ts o; o_exch := o_exch o; o_holder := o_holder o; o_type := o_type o;
     o_spot := o_spot o; o_crypto_out_no_fee := o_crypto_out_no_fee o; o_crypto_fee := o_crypto_fee o;
     o_crypto_out_with_fee := o_crypto_out_with_fee o; o_fiat_out_no_fee := o_fiat_out_no_fee o;
     o_fiat_fee := o_fiat_fee o; o_fiat_out_with_fee := o_fiat_out_with_fee o |}.
Definition rn_intra (rho : Z -> Z) (x : intratx) : intratx :=
  {| x_row := rho (x_row x); x_ts := x_ts x; x_from_exch := x_from_exch x; x_from_holder := x_from_holder x;
     x_to_exch := x_to_exch x; x_to_holder := x_to_holder x; x_spot := x_spot x;
     x_crypto_sent := x_crypto_sent x; x_crypto_received := x_crypto_received x; x_crypto_fee := x_crypto_fee x;
     x_fiat_fee := x_fiat_fee x |}.
Definition rn_txn (rho : Z -> Z) (x : txn) : txn :=
  match x with TIn a => TIn (rn_in rho a) | TOut a => TOut (rn_out rho a) | TIntra a => TIntra (rn_intra rho a) end.
Definition rn_txs (rho : Z -> Z) (t : txs) : txs :=
  {| t_ins := map (rn_in rho) (t_ins t); t_outs := map (rn_out rho) (t_outs t); t_intras := map (rn_intra rho) (t_intras t) |}.
(** a fraction names its taxable event and its lot by row id *)
Definition rn_frac (rho : Z -> Z) (f : fraction) : fraction :=
  {| f_ev := rho (f_ev f); f_lot := option_map rho (f_lot f); f_amt := f_amt f |}.
Definition rn_res {A B} (f : A -> B) (r : result A) : result B := match r with Ok x => Ok (f x) | Err e => Err e end.
(** an entry of the parser's table row id -> (unique_id argument, notes argument) *)
Definition rn_meta (rho : Z -> Z) (m : Z * arg * arg) : Z * arg * arg := (rho (fst (fst m)), snd (fst m), snd m).

(** * the same tables in another order *)
(** what a table holds: its type and its typed rows (not: blank rows before it, keyword / header / TABLE END rows, junk in
    unmapped columns, row width) *)
Definition block_content (b : block) : table * list srow := (b_tab b, map fst (b_rows b)).
(** two sheets hold the same tables, in any order, with any number of blank rows between them *)
Definition same_tables (bl1 bl2 : list block) : Prop := Permutation (map block_content bl1) (map block_content bl2).

(** * parsed results equal up to row ids *)
Definition mono_on (rho : Z -> Z) (l : list Z) : Prop := forall x y, In x l -> In y l -> x < y -> rho x < rho y.
Definition inj_on (rho : Z -> Z) (l : list Z) : Prop := forall x y, In x l -> In y l -> rho x = rho y -> x = y.
Definition parsed_rows (p : parsed) : list Z := map i_row (pa_ins p) ++ map o_row (pa_outs p) ++ map x_row (pa_intras p).

(** [rho] renames sheet rows and nothing else: ids <= 0 (the artificial ids of fee disposals, which lie below the counter's
    start value <= 1) are left alone, sheet rows go to sheet rows, the order of the rows WITHIN each table is kept, and
    no two rows are identified *)
Record table_renaming (rho : Z -> Z) (p : parsed) : Prop := {
  tr_fix : forall r, r <= 0 -> rho r = r;
  tr_pos : forall r, In r (parsed_rows p) -> 0 < r -> 0 < rho r;
  tr_in : mono_on rho (map i_row (pa_ins p));
  tr_out : mono_on rho (map o_row (pa_outs p));
  tr_intra : mono_on rho (map x_row (pa_intras p));
  tr_inj : inj_on rho (parsed_rows p) }.

(** the transaction sets of [p2] are those of [p1], in the same order, under such a renaming (in particular they are equal
    after forgetting the row ids: Proofs/TableOrder.v [same_up_to_rows_forget]); same artificial-id counter afterwards; the
    table row id -> (unique_id, notes) holds the renamed entries (its order follows the sheet, hence [Permutation]) *)
Definition renamed_by (rho : Z -> Z) (p1 p2 : parsed) : Prop :=
  table_renaming rho p1 /\
  pa_ins p2 = map (rn_in rho) (pa_ins p1) /\ pa_outs p2 = map (rn_out rho) (pa_outs p1) /\
  pa_intras p2 = map (rn_intra rho) (pa_intras p1) /\ pa_counter p2 = pa_counter p1 /\
  Permutation (pa_meta p2) (map (rn_meta rho) (pa_meta p1)).
Definition same_up_to_rows (p1 p2 : parsed) : Prop := exists rho, renamed_by rho p1 p2.

(** * from the parser's result to the transaction sets of the computation
    InputData / TransactionSet: duplicate internal ids rejected, the IN set must not be empty, each set sorted by instant
    (stable) -- the second half of [Pipeline.build], whose first half (the constructors) the parser has already run *)
Definition txs_of_lists (ins : list intx) (outs : list outtx) (intras : list intratx) : result txs :=
  if has_dup (map i_row ins) || has_dup (map o_row outs) || has_dup (map x_row intras) then Err EDup else
  match ins with
  | [] => Err EValue
  | _ => Ok {| t_ins := sort_by in_us ins; t_outs := sort_by out_us outs; t_intras := sort_by intra_us intras |}
  end.
Definition txs_of_parsed (p : parsed) : result txs := txs_of_lists (pa_ins p) (pa_outs p) (pa_intras p).
