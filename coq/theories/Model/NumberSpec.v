(** Vocabulary for the functional specification of the fraction numbering
    ([numbering] / [num_step] of Computed.v = GainLossSet._sort_entries): the "k of n" labels
    of a gain/loss fraction per taxable event and per acquired lot.  Definitions only. *)
From RP2V Require Import Base.Prelude Base.Time Base.Dec Base.Assoc Model.Types Model.Generated Model.Txn
  Model.Matcher Model.Pipeline Model.Computed.
Open Scope Z_scope.

(** sheet row (= internal id) of the taxable event of a fraction *)
Definition ev_row (g : gl) : Z := t_row (g_ev g).
(** fraction [g] belongs to the event with row [r] / was taken from the lot with row [r] *)
Definition of_ev (r : Z) (g : gl) : bool := ev_row g =? r.
Definition of_lot (r : Z) (g : gl) : bool := match g_lot g with Some a => i_row a =? r | None => false end.

(** number of fractions of event [r] / of lot [r] in a list; amount taken from lot [r] *)
Definition ev_count (r : Z) (l : list gl) : nat := length (filter (of_ev r) l).
Definition lot_count (r : Z) (l : list gl) : nat := length (filter (of_lot r) l).
Definition lot_sum (r : Z) (l : list gl) : Z := sumZ (map g_amt (filter (of_lot r) l)).
Definition amt_sum (l : list gl) : Z := sumZ (map g_amt l).

(** the labels the [k]-th fraction [g] of the list [l] is specified to carry:
    (number of EARLIER fractions of [l] with the same event, number of fractions of [l] with that event),
    and the same per acquired lot (none for the lot-less fractions of income events) *)
Definition ev_label (l : list gl) (k : nat) (g : gl) : nat * nat :=
  (ev_count (ev_row g) (firstn k l), ev_count (ev_row g) l).
Definition lot_label (l : list gl) (k : nat) (g : gl) : option (nat * nat) :=
  match g_lot g with
  | None => None
  | Some a => Some (lot_count (i_row a) (firstn k l), lot_count (i_row a) l)
  end.

(** the lists of indices, computed left to right ([seen] = the fractions already passed) *)
Fixpoint ev_idx_from (seen l : list gl) : list nat :=
  match l with
  | [] => []
  | g :: t => ev_count (ev_row g) seen :: ev_idx_from (seen ++ [g]) t
  end.
Definition ev_idx (l : list gl) : list nat := ev_idx_from [] l.
Definition lot_occ (seen : list gl) (g : gl) : option nat :=
  match g_lot g with None => None | Some a => Some (lot_count (i_row a) seen) end.
Fixpoint lot_idx_from (seen l : list gl) : list (option nat) :=
  match l with
  | [] => []
  | g :: t => lot_occ seen g :: lot_idx_from (seen ++ [g]) t
  end.
Definition lot_idx (l : list gl) : list (option nat) := lot_idx_from [] l.

(** the table "row -> count" a count function specifies: no entry for rows without fractions *)
Definition count_table (cnt : Z -> nat) (m : assoc nat) : Prop :=
  forall r, aget r m = if Nat.eqb (cnt r) 0 then None else Some (cnt r).

(** * well-formedness the EVENT numbering needs.
    The code keeps ONE running amount and ONE running index for "the current event" and never looks at
    which event a fraction belongs to; it resets them when the running amount reaches the
    [crypto_balance_change] of the fraction at hand.  The list must therefore be a concatenation of
    blocks, one per taxable event: a non-empty run of fractions of one event [e] whose
    positive amounts sum to the event's total; different blocks have different events (rows). *)
Inductive ev_blocks : list gl -> Prop :=
| evb_nil : ev_blocks []
| evb_app : forall e b rest,
    b <> [] ->
    (forall g, In g b -> g_ev g = e /\ 0 < g_amt g) ->
    amt_sum b = t_balance_change e ->
    (forall g, In g rest -> ev_row g <> t_row e) ->
    ev_blocks rest ->
    ev_blocks (b ++ rest).

(** a trailing event whose fractions do not reach its total (what a cut through an event would leave) *)
Definition ev_partial_block (e : txn) (c : list gl) : Prop :=
  c <> [] /\ (forall g, In g c -> g_ev g = e /\ 0 < g_amt g) /\ amt_sum c < t_balance_change e.

(** * what the LOT numbering checks by itself (per-lot dictionaries): at every fraction the running total
    taken from its lot does not exceed the lot's amount, and once the total has reached the amount no later
    fraction uses the lot *)
Definition lots_ok (l : list gl) : Prop :=
  forall p g q a, l = p ++ g :: q -> g_lot g = Some a ->
    lot_sum (i_row a) (p ++ [g]) <= in_crypto_balance_change a /\
    (lot_sum (i_row a) (p ++ [g]) = in_crypto_balance_change a -> lot_count (i_row a) q = O).

(** simpler sufficient and (for Ok) necessary form when amounts are positive and a row identifies the lot *)
Definition lot_rows_consistent (l : list gl) : Prop :=
  forall g g' a a', In g l -> In g' l -> g_lot g = Some a -> g_lot g' = Some a' -> i_row a = i_row a' ->
    in_crypto_balance_change a = in_crypto_balance_change a'.
Definition lots_within (l : list gl) : Prop :=
  forall g a, In g l -> g_lot g = Some a -> lot_sum (i_row a) l <= in_crypto_balance_change a.
