(** ods_parser.parse_ods: the table state machine over the rows of one sheet, the
    header -> column maps of the configuration, the numeric conversion '%.11f', the
    constructors, the crypto-fee split of in-transactions.
    Cells are what ezodf's cell.value returns: None, str, float (exact binary value as a
    fraction), bool.  Timestamp strings are parsed by python-dateutil (library): the harness
    passes its verdict for every distinct string as an oracle table. *)
From RP2V Require Import Base.Prelude Base.Time Base.Dec Base.Sorting Model.Types Model.Generated Model.Txn.
Open Scope Z_scope.

Inductive cell := CEmpty | CStr (s : str) | CNum (num den : Z) | CBool (b : bool).
Inductive ts_res := TsBad | TsNaive | TsAware (t : tstamp).
Inductive table := TabIn | TabOut | TabIntra.

Record pcfg := {
  pc_in : list (Z * Z);             (* field id -> column, as configured *)
  pc_out : list (Z * Z);
  pc_intra : list (Z * Z);
  pc_assets : list str; pc_exchanges : list str; pc_holders : list str;
  pc_ts : list (str * ts_res) }.

(** field ids
    IN:    0 timestamp 1 asset 2 exchange 3 holder 4 transaction_type 5 spot_price 6 crypto_in 7 crypto_fee
           8 fiat_in_no_fee 9 fiat_in_with_fee 10 fiat_fee 11 unique_id 12 notes
    OUT:   0..5 as IN, 6 crypto_out_no_fee 7 crypto_fee 8 crypto_out_with_fee 9 fiat_out_no_fee 10 fiat_fee 11 unique_id 12 notes
    INTRA: 0 timestamp 1 asset 2 from_exchange 3 from_holder 4 to_exchange 5 to_holder 6 spot_price 7 crypto_sent
           8 crypto_received 9 unique_id 10 notes *)

Fixpoint lookup_col (f : Z) (h : list (Z * Z)) : option Z :=
  match h with [] => None | (f', c) :: t => if f =? f' then Some c else lookup_col f t end.
Definition max_col (h : list (Z * Z)) : Z := fold_left (fun m fc => Z.max m (snd fc)) h (-1).

(** argument of a constructor: not passed at all (field not in the header), or the cell *)
Inductive arg := ANone | ACell (c : cell).
Definition get_arg (h : list (Z * Z)) (row : list cell) (f : Z) : arg :=
  match lookup_col f h with
  | None => ANone
  | Some c => ACell (nth (Z.to_nat c) row CEmpty)
  end.

(** f"{value:.11f}": exact half-even rounding of the double to [gen_fmt_decimals] decimals (the
    precision is read from the source by the translator), expressed in 1e-11 grid units *)
Definition num11 (num den : Z) : Z :=
  if gen_fmt_decimals <=? 11
  then rhe_div (num * pow10 gen_fmt_decimals) den false * pow10 (11 - gen_fmt_decimals)
  else rhe_div (num * pow10 11) den false.

(** numeric parameter: Ok None (absent / empty), Ok (Some units), or error (a string) *)
Definition num_arg (a : arg) : result (option Z) :=
  match a with
  | ANone => Ok None
  | ACell CEmpty => Ok None
  | ACell (CNum n d) => if d <=? 0 then Err EValue else Ok (Some (num11 n d))
  | ACell (CBool b) => Ok (Some (if b then pow10 11 else 0))
  | ACell (CStr _) => Err EValue
  end.
Definition mandatory_num (a : arg) : result Z :=
  match a with
  | ANone => Err EType
  | _ => match num_arg a with Ok (Some v) => Ok v | Ok None => Err EType | Err e => Err e end
  end.
(** optional numeric parameter with default None when not passed *)
Definition optional_num (a : arg) : result (option Z) := num_arg a.

Fixpoint str_index (s : str) (l : list str) (k : Z) : option Z :=
  match l with [] => None | x :: t => if str_eqb s x then Some k else str_index s t (k + 1) end.
Definition str_arg (a : arg) : result str :=
  match a with ACell (CStr s) => Ok s | ANone => Err EType | _ => Err EType end.
Definition member_arg (a : arg) (l : list str) : result Z :=
  match str_arg a with
  | Err e => Err e
  | Ok s => match str_index s l 0 with Some k => Ok k | None => Err EValue end
  end.

Fixpoint ts_lookup (s : str) (l : list (str * ts_res)) : ts_res :=
  match l with [] => TsBad | (x, r) :: t => if str_eqb s x then r else ts_lookup s t end.
Definition ts_arg (cfg : pcfg) (a : arg) : result tstamp :=
  match str_arg a with
  | Err e => Err e
  | Ok s => match ts_lookup s (pc_ts cfg) with TsAware t => Ok t | _ => Err EValue end
  end.

Definition lower_cp (c : Z) : Z := if (65 <=? c) && (c <=? 90) then c + 32 else c.
Definition ttype_of_str (s : str) : option ttype :=
  find (fun t => str_eqb (map lower_cp s) (ttype_value t)) all_ttypes.
Definition ttype_arg (a : arg) : result ttype :=
  match str_arg a with
  | Err e => Err e
  | Ok s => match ttype_of_str s with Some t => Ok t | None => Err EValue end
  end.

(** notes: type-checked only when truthy; unique_id: str / int / float all accepted *)
Definition notes_ok (a : arg) : bool :=
  match a with
  | ANone | ACell CEmpty | ACell (CStr _) => true
  | ACell (CNum n _) => n =? 0
  | ACell (CBool b) => negb b
  end.

Definition row_too_short (h : list (Z * Z)) (row : list cell) : bool := Z.of_nat (length row) <=? max_col h.

Definition create_in_args (cfg : pcfg) (rowno : Z) (ga : Z -> arg) : result raw_in :=
  do ts <- ts_arg cfg (ga 0);
  do _ <- member_arg (ga 1) (pc_assets cfg);
  do ex <- member_arg (ga 2) (pc_exchanges cfg);
  do ho <- member_arg (ga 3) (pc_holders cfg);
  do ty <- ttype_arg (ga 4);
  do spot <- mandatory_num (ga 5);
  do cin <- mandatory_num (ga 6);
  do cfee <- optional_num (ga 7);
  do f1 <- optional_num (ga 8);
  do f2 <- optional_num (ga 9);
  do f3 <- optional_num (ga 10);
  if negb (notes_ok (ga 12)) then Err EType else
  Ok {| ri_row := rowno; ri_ts := ts; ri_exch := ex; ri_holder := ho; ri_type := ty; ri_spot := spot; ri_crypto_in := cin;
        ri_crypto_fee := cfee; ri_fiat_in_no_fee := f1; ri_fiat_in_with_fee := f2; ri_fiat_fee := f3 |}.

Definition create_in (cfg : pcfg) (rowno : Z) (row : list cell) : result raw_in :=
  let h := pc_in cfg in
  if row_too_short h row then Err EValue else create_in_args cfg rowno (get_arg h row).

Definition create_out_args (cfg : pcfg) (rowno : Z) (ga : Z -> arg) : result raw_out :=
  do ts <- ts_arg cfg (ga 0);
  do _ <- member_arg (ga 1) (pc_assets cfg);
  do ex <- member_arg (ga 2) (pc_exchanges cfg);
  do ho <- member_arg (ga 3) (pc_holders cfg);
  do ty <- ttype_arg (ga 4);
  do spot <- mandatory_num (ga 5);
  do nofee <- mandatory_num (ga 6);
  do fee <- mandatory_num (ga 7);
  do w <- optional_num (ga 8);
  do f1 <- optional_num (ga 9);
  do f2 <- optional_num (ga 10);
  if negb (notes_ok (ga 12)) then Err EType else
  Ok {| ro_row := rowno; ro_ts := ts; ro_exch := ex; ro_holder := ho; ro_type := ty; ro_spot := spot;
        ro_crypto_out_no_fee := nofee; ro_crypto_fee := fee; ro_crypto_out_with_fee := w; ro_fiat_out_no_fee := f1; ro_fiat_fee := f2 |}.

Definition create_out (cfg : pcfg) (rowno : Z) (row : list cell) : result raw_out :=
  let h := pc_out cfg in
  if row_too_short h row then Err EValue else create_out_args cfg rowno (get_arg h row).

Definition create_intra_args (cfg : pcfg) (rowno : Z) (ga : Z -> arg) : result raw_intra :=
  do ts <- ts_arg cfg (ga 0);
  do _ <- member_arg (ga 1) (pc_assets cfg);
  do fe <- member_arg (ga 2) (pc_exchanges cfg);
  do fh <- member_arg (ga 3) (pc_holders cfg);
  do te <- member_arg (ga 4) (pc_exchanges cfg);
  do th <- member_arg (ga 5) (pc_holders cfg);
  match ga 6 with
  | ANone => Err EType            (* spot_price has no default: a header without it cannot construct *)
  | a6 =>
    do spot <- optional_num a6;
    do sent <- mandatory_num (ga 7);
    do recv <- mandatory_num (ga 8);
    if negb (notes_ok (ga 10)) then Err EType else
    Ok {| rx_row := rowno; rx_ts := ts; rx_from_exch := fe; rx_from_holder := fh; rx_to_exch := te; rx_to_holder := th;
          rx_spot := spot; rx_crypto_sent := sent; rx_crypto_received := recv |}
  end.

Definition create_intra (cfg : pcfg) (rowno : Z) (row : list cell) : result raw_intra :=
  let h := pc_intra cfg in
  if row_too_short h row then Err EValue else create_intra_args cfg rowno (get_arg h row).

(** the asset cell of a data row must be the sheet's asset (entry set check) *)
Definition asset_is (cfg : pcfg) (h : list (Z * Z)) (row : list cell) (asset : str) : bool :=
  match get_arg h row 1 with ACell (CStr s) => str_eqb s asset | _ => false end.

(** second construction of an in-transaction with crypto fee: crypto_fee = None, the three fiat
    fields supplied as the (unrounded) decimals derived by the first construction *)
Definition split_in (a : intx) : result intx :=
  (* type_check_positive_decimal(non_zero=True) on fiat_in_no_fee and fiat_in_with_fee, >= 0 on fiat_fee (when truthy) *)
  if dltb (i_fiat_in_no_fee a) dzero || deqb (i_fiat_in_no_fee a) dzero then Err EValue else
  if dltb (i_fiat_in_with_fee a) dzero || deqb (i_fiat_in_with_fee a) dzero then Err EValue else
  if dltb (i_fiat_fee a) dzero then Err EValue else
  Ok {| i_row := i_row a; i_ts := i_ts a; i_exch := i_exch a; i_holder := i_holder a; i_type := i_type a;
        i_spot := i_spot a; i_crypto_in := i_crypto_in a; i_crypto_fee := 0;
        i_fiat_in_no_fee := i_fiat_in_no_fee a; i_fiat_in_with_fee := i_fiat_in_with_fee a;
        i_fiat_fee := if fst (i_fiat_fee a) =? 0 then dzero else i_fiat_fee a |}.

Definition fee_out (a : intx) (artificial_row : Z) : result outtx :=
  mk_out {| ro_row := artificial_row; ro_ts := i_ts a; ro_exch := i_exch a; ro_holder := i_holder a; ro_type := FEE;
            ro_spot := i_spot a; ro_crypto_out_no_fee := 0; ro_crypto_fee := i_crypto_fee a;
            ro_crypto_out_with_fee := None; ro_fiat_out_no_fee := None; ro_fiat_fee := None |}.

Record pstate := {
  ps_cur : option table; ps_count : Z;
  ps_ins : list intx; ps_outs : list outtx; ps_intras : list intratx;   (* insertion order *)
  ps_art : list outtx; ps_counter : Z;
  ps_meta : list (Z * arg * arg);                   (* row id -> (unique_id argument, notes argument) *)
  ps_seen : list table }.                           (* table types begun so far (read only when the code remembers them) *)

Definition table_of_cell (c : cell) : option table :=
  match c with
  | CStr s =>
    let l := map lower_cp s in
    if str_eqb l gen_kw_in then Some TabIn
    else if str_eqb l gen_kw_out then Some TabOut
    else if str_eqb l gen_kw_intra then Some TabIntra
    else None
  | _ => None
  end.
Definition TABLE_END : str := gen_table_end.
Definition is_table_end (c : cell) : bool := match c with CStr s => str_eqb s TABLE_END | _ => false end.
Definition is_empty_cell (c : cell) : bool := match c with CEmpty => true | CStr [] => true | _ => false end.

Definition set_empty (s : pstate) (t : table) : bool :=
  match t with
  | TabIn => match ps_ins s with [] => true | _ => false end
  | TabOut => match ps_outs s with [] => true | _ => false end
  | TabIntra => match ps_intras s with [] => true | _ => false end
  end.

Definition constructs (cfg : pcfg) (t : table) (rowno : Z) (row : list cell) : bool :=
  match t with
  | TabIn => match create_in cfg rowno row with Ok r => match mk_in r with Ok _ => true | Err _ => false end | Err _ => false end
  | TabOut => match create_out cfg rowno row with Ok r => match mk_out r with Ok _ => true | Err _ => false end | Err _ => false end
  | TabIntra => match create_intra cfg rowno row with Ok r => match mk_intra r with Ok _ => true | Err _ => false end | Err _ => false end
  end.

Definition has_row_in (r : Z) (l : list intx) : bool := existsb (fun a => i_row a =? r) l.

Definition upd_state (s : pstate) (ins : list intx) (outs : list outtx) (intras : list intratx) (art : list outtx)
  (counter : Z) (meta : list (Z * arg * arg)) : pstate :=
  {| ps_cur := ps_cur s; ps_count := ps_count s; ps_ins := ins; ps_outs := outs; ps_intras := intras;
     ps_art := art; ps_counter := counter; ps_meta := meta; ps_seen := ps_seen s |}.

Definition data_row (cfg : pcfg) (asset : str) (s : pstate) (t : table) (rowno : Z) (row : list cell) : result pstate :=
  match t with
  | TabIn =>
    let h := pc_in cfg in
    do r <- create_in cfg rowno row;
    do a <- mk_in r;
    if negb (asset_is cfg h row asset) then Err EValue else
    let m := (rowno, get_arg h row 11, get_arg h row 12) in
    if 0 <? i_crypto_fee a then
      do a' <- split_in a;
      let id := ps_counter s - 1 in
      do o <- fee_out a id;
      Ok (upd_state s (ps_ins s ++ [a']) (ps_outs s) (ps_intras s) (ps_art s ++ [o]) id
                    (ps_meta s ++ [m; (id, get_arg h row 11, ANone)]))
    else
      Ok (upd_state s (ps_ins s ++ [a]) (ps_outs s) (ps_intras s) (ps_art s) (ps_counter s) (ps_meta s ++ [m]))
  | TabOut =>
    let h := pc_out cfg in
    do r <- create_out cfg rowno row;
    do a <- mk_out r;
    if negb (asset_is cfg h row asset) then Err EValue else
    Ok (upd_state s (ps_ins s) (ps_outs s ++ [a]) (ps_intras s) (ps_art s) (ps_counter s)
                  (ps_meta s ++ [(rowno, get_arg h row 11, get_arg h row 12)]))
  | TabIntra =>
    let h := pc_intra cfg in
    do r <- create_intra cfg rowno row;
    do a <- mk_intra r;
    if negb (asset_is cfg h row asset) then Err EValue else
    Ok (upd_state s (ps_ins s) (ps_outs s) (ps_intras s ++ [a]) (ps_art s) (ps_counter s)
                  (ps_meta s ++ [(rowno, get_arg h row 9, get_arg h row 10)]))
  end.

Definition with_cur (s : pstate) (cur : option table) (count : Z) : pstate :=
  {| ps_cur := cur; ps_count := count; ps_ins := ps_ins s; ps_outs := ps_outs s; ps_intras := ps_intras s;
     ps_art := ps_art s; ps_counter := ps_counter s; ps_meta := ps_meta s; ps_seen := ps_seen s |}.

Definition table_eqb (a b : table) : bool :=
  match a, b with TabIn, TabIn | TabOut, TabOut | TabIntra, TabIntra => true | _, _ => false end.
Definition seen_has (t : table) (l : list table) : bool := existsb (table_eqb t) l.
Definition begin_table (s : pstate) (t : table) : pstate :=
  {| ps_cur := Some t; ps_count := 1; ps_ins := ps_ins s; ps_outs := ps_outs s; ps_intras := ps_intras s;
     ps_art := ps_art s; ps_counter := ps_counter s; ps_meta := ps_meta s; ps_seen := t :: ps_seen s |}.

(** "Found more than one <table> symbol": the code either remembers the table types it has begun ([remember] = true) or
    tests whether the transaction set of that type is non-empty (false: a repeat after an EMPTY table goes unnoticed) *)
Definition repeated_table (remember : bool) (s : pstate) (t : table) : bool :=
  if remember then seen_has t (ps_seen s) else negb (set_empty s t).

(** one sheet row (rowno is 1-based) *)
Definition row_step_gen (remember : bool) (cfg : pcfg) (asset : str) (s : pstate) (rowno : Z) (row : list cell) : result pstate :=
  let c0 := nth 0 row CEmpty in
  let begin_ := table_of_cell c0 in
  let bad :=
    match ps_cur s with
    | Some _ => (match begin_ with Some _ => true | None => false end) || is_empty_cell c0
    | None => is_table_end c0 || (negb (is_empty_cell c0) && (match begin_ with Some _ => false | None => true end))
    end in
  if bad then Err EValue else
  match begin_ with
  | Some t => if repeated_table remember s t then Err EValue else Ok (begin_table s t)
  | None =>
    if is_table_end c0 then Ok (with_cur s None (ps_count s + 1)) else
    match ps_cur s with
    | None => Ok (with_cur s None (ps_count s + 1))           (* blank row outside a table *)
    | Some t =>
      if ps_count s =? 1 then
        (if constructs cfg t rowno row then Err EValue else Ok (with_cur s (Some t) 2))
      else
        match data_row cfg asset s t rowno row with
        | Err e => Err e
        | Ok s' => Ok (with_cur s' (Some t) (ps_count s + 1))
        end
    end
  end.

Fixpoint parse_rows_gen (remember : bool) (cfg : pcfg) (asset : str) (s : pstate) (rowno : Z) (rows : list (list cell)) : result pstate :=
  match rows with
  | [] => Ok s
  | r :: t => match row_step_gen remember cfg asset s rowno r with
              | Err e => Err e
              | Ok s' => parse_rows_gen remember cfg asset s' (rowno + 1) t
              end
  end.

(** the behaviour of the code as it is: the flag is read from the source by the translator *)
Definition row_step := row_step_gen gen_parser_remembers_tables.
Definition parse_rows := parse_rows_gen gen_parser_remembers_tables.

Record parsed := { pa_ins : list intx; pa_outs : list outtx; pa_intras : list intratx; pa_counter : Z;
                   pa_meta : list (Z * arg * arg) }.

Definition has_dupZ (l : list Z) : bool :=
  (fix go l := match l with [] => false | x :: t => existsb (Z.eqb x) t || go t end) l.

(** parse_ods for one asset; [counter] is the configuration's artificial-id counter (shared by the
    assets processed in one run) *)
Definition parse_sheet_gen (remember : bool) (cfg : pcfg) (asset : str) (counter : Z) (rows : list (list cell)) : result parsed :=
  match str_index asset (pc_assets cfg) 0 with
  | None => Err EValue
  | Some _ =>
    match parse_rows_gen remember cfg asset {| ps_cur := None; ps_count := 0; ps_ins := []; ps_outs := []; ps_intras := [];
                                  ps_art := []; ps_counter := counter; ps_meta := []; ps_seen := [] |} 1 rows with
    | Err e => Err e
    | Ok s =>
      match ps_cur s with
      | Some _ => Err EValue                               (* TABLE END not found *)
      | None =>
        match ps_ins s with
        | [] => Err EValue                                 (* IN table not found or empty *)
        | _ => Ok {| pa_ins := ps_ins s; pa_outs := ps_outs s ++ ps_art s; pa_intras := ps_intras s; pa_counter := ps_counter s;
                      pa_meta := ps_meta s |}
        end
      end
    end
  end.

Definition parse_sheet := parse_sheet_gen gen_parser_remembers_tables.
