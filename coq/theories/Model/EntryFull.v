(** Entry points of the full-report model (driver commands 50-59).
    cmd 50: [rinput (ReportInput.rd_rinput); texts; legend_rows; legend_cols; summary_rows; summary_cols; extras]
            -> 0 :: enc_report sheets | [11] KeyError | [12] IndexError | [err code]
            with the structural flags read from the source (Generated.v)
    cmd 51: [] -> the message ids whose translations cmd 50 expects, each followed by 1 if the
            generator upper-cases the translation
    cmd 52: as cmd 50 with the three repairs forced on (what the repaired generator would write) *)
From RP2V Require Import Base.Prelude Base.Time Base.Dec Base.Assoc Model.Types Model.Generated Model.Codec Model.Grid
  Model.ReportInput Model.FullReport.
Open Scope Z_scope.

Definition rd_extra : rd (Z * (str * str)) := fun s =>
  match s with
  | row :: t =>
    match rd_str t with
    | None => None
    | Some (u, t1) => match rd_str t1 with None => None | Some (n, t2) => Some ((row, (u, n)), t2) end
    end
  | [] => None
  end.

Definition rd_fenv : rd fenv := fun s =>
  match rd_list rd_str s with
  | None => None
  | Some (texts, lr :: lc :: sr :: sc :: s1) =>
    match rd_list (rd_list rd_extra) s1 with
    | None => None
    | Some (ex, s2) =>
      Some ({| fe_texts := texts; fe_legend_rows := lr; fe_legend_cols := lc; fe_summary_rows := sr; fe_summary_cols := sc;
               fe_extra := ex |}, s2)
    end
  | Some _ => None
  end.

Definition enc_fres (r : fres (list sheetw)) : list Z :=
  match r with
  | ROk l => 0 :: enc_report l
  | RKeyError => [11]
  | RIndexError => [12]
  | RErr e => [err_code e]
  end.

Definition entry_full_with (fl : fflags) (a : list Z) : list Z :=
  match rd_rinput a with
  | None => [-1]
  | Some (Err e, _) => [err_code e]
  | Some (Ok i, s1) =>
    match rd_fenv s1 with
    | None => [-1]
    | Some (env, _) => enc_fres (full_report fl env i)
    end
  end.

Definition entry_full (a : list Z) : list Z := entry_full_with code_flags a.
Definition entry_full_fixed (a : list Z) : list Z := entry_full_with fixed_flags a.
Definition entry_full_msgids (_ : list Z) : list Z :=
  Z.of_nat (length gen_full_msgids) :: flat_map (fun x : str * bool => enc_str (fst x) ++ [if snd x then 1 else 0]) gen_full_msgids.
