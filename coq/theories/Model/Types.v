(** Data types of the RP2 model.  Crypto amounts and spot prices are integers in
    units of 1e-11 (the grid the ODS parser produces with '%.11f'); fiat amounts
    are 31-digit decimals ([dec]).  Strings are lists of code points. *)
From RP2V Require Import Base.Prelude Base.Time Base.Dec.
Open Scope Z_scope.

Inductive ttype :=
| AIRDROP | BUY | DONATE | FEE | GIFT | HARDFORK | INCOME | INTEREST
| LOST | MINING | MOVE | SELL | STAKING | WAGES.

(** position in [TransactionType] (alphabetical, as declared) *)
Definition ttype_code (t : ttype) : Z :=
  match t with
  | AIRDROP => 0 | BUY => 1 | DONATE => 2 | FEE => 3 | GIFT => 4 | HARDFORK => 5 | INCOME => 6
  | INTEREST => 7 | LOST => 8 | MINING => 9 | MOVE => 10 | SELL => 11 | STAKING => 12 | WAGES => 13
  end.
Definition all_ttypes : list ttype :=
  [AIRDROP; BUY; DONATE; FEE; GIFT; HARDFORK; INCOME; INTEREST; LOST; MINING; MOVE; SELL; STAKING; WAGES].
Definition ttype_eqb (a b : ttype) : bool := ttype_code a =? ttype_code b.
Definition ttype_of_code (c : Z) : option ttype :=
  find (fun t => ttype_code t =? c) all_ttypes.
Definition ttype_in (t : ttype) (l : list ttype) : bool := existsb (ttype_eqb t) l.

Lemma ttype_eqb_eq a b : ttype_eqb a b = true <-> a = b.
Proof. split; [|intros ->; destruct b; reflexivity]. destruct a, b; cbv; congruence. Qed.

Definition str := list Z.

Inductive meth := Fifo | Lifo | Hifo | Lofo.
Definition meth_code (m : meth) : Z := match m with Fifo => 0 | Lifo => 1 | Hifo => 2 | Lofo => 3 end.

Inductive country := US | ES | JP | IE | GENERIC.

(** Transactions after construction (all derived fields present). *)
Record intx := {
  i_row : Z; i_ts : tstamp; i_exch : Z; i_holder : Z; i_type : ttype;
  i_spot : Z; i_crypto_in : Z; i_crypto_fee : Z;
  i_fiat_in_no_fee : dec; i_fiat_in_with_fee : dec; i_fiat_fee : dec }.

Record outtx := {
  o_row : Z; o_ts : tstamp; o_exch : Z; o_holder : Z; o_type : ttype;
  o_spot : Z; o_crypto_out_no_fee : Z; o_crypto_fee : Z; o_crypto_out_with_fee : Z;
  o_fiat_out_no_fee : dec; o_fiat_fee : dec; o_fiat_out_with_fee : dec }.

Record intratx := {
  x_row : Z; x_ts : tstamp; x_from_exch : Z; x_from_holder : Z; x_to_exch : Z; x_to_holder : Z;
  x_spot : Z; x_crypto_sent : Z; x_crypto_received : Z; x_crypto_fee : Z; x_fiat_fee : dec }.

Inductive txn := TIn (t : intx) | TOut (t : outtx) | TIntra (t : intratx).

Definition t_row (t : txn) : Z := match t with TIn a => i_row a | TOut a => o_row a | TIntra a => x_row a end.
Definition t_ts (t : txn) : tstamp := match t with TIn a => i_ts a | TOut a => o_ts a | TIntra a => x_ts a end.
Definition t_type (t : txn) : ttype := match t with TIn a => i_type a | TOut a => o_type a | TIntra _ => MOVE end.
Definition t_class (t : txn) : Z := match t with TIn _ => 0 | TOut _ => 1 | TIntra _ => 2 end.

(** total versions of the RP2Decimal comparisons; the default is only taken when
    Python would raise decimal.InvalidOperation (|difference| >= 1e18) *)
Definition optb (o : option bool) : bool := match o with Some b => b | None => false end.
Definition dgtb (a b : dec) : bool := optb (dgt a b).
Definition dgeb (a b : dec) : bool := optb (dge a b).
Definition dltb (a b : dec) : bool := optb (dlt a b).
Definition dleb (a b : dec) : bool := optb (dle a b).
Definition deqb (a b : dec) : bool := optb (deq a b).
Definition dneb (a b : dec) : bool := negb (deqb a b).

Definition odiv (a b : dec) : option dec := ddiv a b.
Definition olift2 (f : dec -> dec -> dec) (a b : option dec) : option dec :=
  match a, b with Some x, Some y => Some (f x y) | _, _ => None end.
