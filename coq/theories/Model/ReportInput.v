(** What a report generator receives: the configuration bits it looks at, and per asset (in the
    sorted order of [rp2_main]) the [ComputedData].  The per-asset ComputedData is recomputed here
    by [Computed.compute] from the transactions and a list of gain/loss fractions (in the
    correspondence check: the implementation's own fractions, so that the report layer is
    compared in isolation from the matcher). *)
From RP2V Require Import Base.Prelude Base.Time Base.Dec Base.Sorting Base.Assoc Model.Types Model.Generated Model.Txn
  Model.Matcher Model.Pipeline Model.Computed Model.Codec.
Open Scope Z_scope.

Record rasset := { ra_name : str; ra_txs : txs; ra_fracs : list fraction }.
Record rinput := {
  rp_country : country; rp_period : Z;
  rp_from : Z; rp_to : Z;                  (* day numbers; "not specified" = MIN_DAY / MAX_DAY below *)
  rp_allow : bool;
  rp_exchanges : list str; rp_holders : list str;
  rp_sched : list (Z * meth);              (* years_2_accounting_method_names, insertion order *)
  rp_assets : list rasset }.

Definition MIN_DAY : Z := 0.               (* configuration.MIN_DATE = 1970-01-01 *)
Definition MAX_DAY : Z := 2932896.         (* configuration.MAX_DATE = 9999-12-31 *)

Definition country_of_code' (c : Z) : country :=
  if c =? 0 then US else if c =? 1 then ES else if c =? 2 then JP else if c =? 3 then IE else GENERIC.

Definition rd_rasset : rd (result rasset) := fun s =>
  match rd_str s with
  | None => None
  | Some (name, s1) =>
    match rd_hist s1 with
    | None => None
    | Some (h, s2) =>
      match rd_list rd_frac s2 with
      | None => None
      | Some (fs, s3) =>
        Some (match build h with
              | Err e => Err e
              | Ok t => Ok {| ra_name := name; ra_txs := t; ra_fracs := fs |}
              end, s3)
      end
    end
  end.

Fixpoint all_ok {A} (l : list (result A)) : result (list A) :=
  match l with
  | [] => Ok []
  | Err e :: _ => Err e
  | Ok a :: t => match all_ok t with Ok r => Ok (a :: r) | Err e => Err e end
  end.

(** [country; period; from_day; to_day; allow; exchanges; holders; sched; assets] *)
Definition rd_rinput : rd (result rinput) := fun s =>
  match s with
  | c :: period :: from_day :: to_day :: allow :: s0 =>
    match rd_list rd_str s0 with None => None | Some (exs, s1) =>
    match rd_list rd_str s1 with None => None | Some (hos, s2) =>
    match rd_list rd_sched_entry s2 with None => None | Some (sched, s3) =>
    match rd_list rd_rasset s3 with None => None | Some (assets, s4) =>
      Some (match all_ok assets with
            | Err e => Err e
            | Ok l => Ok {| rp_country := country_of_code' c; rp_period := period; rp_from := from_day; rp_to := to_day;
                            rp_allow := allow =? 1; rp_exchanges := exs; rp_holders := hos; rp_sched := sched;
                            rp_assets := l |}
            end, s4)
    end end end end
  | _ => None
  end.

(** ComputedData of one asset as rp2_main builds it *)
Definition computed_of (i : rinput) (a : rasset) : result computed :=
  compute (rp_period i) (rp_from i) (rp_to i) (rp_allow i) (rp_exchanges i) (rp_holders i) (ra_txs a) (ra_fracs a).

Fixpoint computed_all (i : rinput) (l : list rasset) : result (list (rasset * computed)) :=
  match l with
  | [] => Ok []
  | a :: t => match computed_of i a with
              | Err e => Err e
              | Ok c => match computed_all i t with Ok r => Ok ((a, c) :: r) | Err e => Err e end
              end
  end.
