(** Vocabulary for stating the properties of the aggregation layer (yearly summary, account
    balances, overdraft guard, date windows) in their own terms.  Definitions only. *)
From Coq Require Import Sorted.
From RP2V Require Import Base.Prelude Base.Time Base.Dec Base.Sorting Base.Assoc Model.Types Model.Generated Model.Txn
  Model.Matcher Model.MatchSpec Model.FracSpec Model.Pipeline Model.Computed.
Open Scope Z_scope.

(** * yearly summary *)
(** value of a figure that is known to be defined (never the default on a successful run:
    see C06_figures_defined) *)
Definition odflt (o : option dec) : dec := match o with Some d => d | None => dzero end.
(** the sum the code computes: left to right, every addition rounded to 31 digits *)
Definition dsum (l : list dec) : dec := fold_left dadd l dzero.
(** fraction g has the key (year of the event's own timestamp, type, long/short) of line L *)
Definition line_has_key (period : Z) (L : yline) (g : gl) : bool :=
  (g_year g =? y_year L) && ttype_eqb (t_type (g_ev g)) (y_type L) && Bool.eqb (g_long period g) (y_long L).
(** the documented order of the summary: year descending, SHORT before LONG, type name descending *)
Definition line_before (a b : yline) : Prop :=
  y_year a > y_year b \/
  (y_year a = y_year b /\
   ((y_long a = false /\ y_long b = true) \/
    (y_long a = y_long b /\ ttype_code (y_type a) > ttype_code (y_type b)))).

(** * date window *)
Definition in_window (from_day to_day d : Z) : bool := (from_day <=? d) && (d <=? to_day).
Definition in_day (a : intx) : Z := local_day (i_ts a).
Definition out_day (a : outtx) : Z := local_day (o_ts a).
Definition intra_day (a : intratx) : Z := local_day (x_ts a).
Definition txn_day (x : txn) : Z := local_day (t_ts x).

(** * accounts *)
(** all transactions in replay order: by instant, ties in / intra / out, then sheet order *)
Definition replay_order (t : txs) : list txn :=
  sort_by t_us (map TIn (t_ins t) ++ map TIntra (t_intras t) ++ map TOut (t_outs t)).
Definition same_acct (ex ho ex' ho' : Z) : bool := (ex =? ex') && (ho =? ho').

(** flows of account (ex, ho) in one transaction *)
Definition acquired_by (ex ho : Z) (x : txn) : Z :=
  match x with TIn a => if same_acct (i_exch a) (i_holder a) ex ho then i_crypto_in a else 0 | _ => 0 end.
Definition sent_by (ex ho : Z) (x : txn) : Z :=
  match x with
  | TOut a => if same_acct (o_exch a) (o_holder a) ex ho then o_crypto_out_no_fee a + o_crypto_fee a else 0
  | TIntra a => if same_acct (x_from_exch a) (x_from_holder a) ex ho then x_crypto_sent a else 0
  | TIn _ => 0
  end.
Definition received_by (ex ho : Z) (x : txn) : Z :=
  match x with TIntra a => if same_acct (x_to_exch a) (x_to_holder a) ex ho then x_crypto_received a else 0 | _ => 0 end.
Definition acct_touched (ex ho : Z) (x : txn) : bool :=
  match x with
  | TIn a => same_acct (i_exch a) (i_holder a) ex ho
  | TOut a => same_acct (o_exch a) (o_holder a) ex ho
  | TIntra a => same_acct (x_from_exch a) (x_from_holder a) ex ho || same_acct (x_to_exch a) (x_to_holder a) ex ho
  end.
(** balance of account (ex, ho) after the transactions l *)
Definition balance_after (ex ho : Z) (l : list txn) : Z :=
  sumZ (map (acquired_by ex ho) l) + sumZ (map (received_by ex ho) l) - sumZ (map (sent_by ex ho) l).

(** the same per holder (all exchanges) *)
Definition holder_net (ho : Z) (x : txn) : Z :=
  match x with
  | TIn a => if i_holder a =? ho then i_crypto_in a else 0
  | TOut a => if o_holder a =? ho then - (o_crypto_out_no_fee a + o_crypto_fee a) else 0
  | TIntra a => (if x_to_holder a =? ho then x_crypto_received a else 0) - (if x_from_holder a =? ho then x_crypto_sent a else 0)
  end.
Definition holder_total (ho : Z) (bl : list balance) : Z :=
  sumZ (map b_final (filter (fun b => b_holder b =? ho) bl)).

(** the model encodes an account as exch * 100000 + holder: holders must be below 100000
    (indices into the configured holder list) *)
Definition holder_ok (ho : Z) : Prop := 0 <= ho < 100000.
Definition txn_holders_ok (x : txn) : Prop :=
  match x with
  | TIn a => holder_ok (i_holder a)
  | TOut a => holder_ok (o_holder a)
  | TIntra a => holder_ok (x_from_holder a) /\ holder_ok (x_to_holder a)
  end.
Definition holders_ok (t : txs) : Prop := forall x, In x (replay_order t) -> txn_holders_ok x.

(** * overdraft guard *)
(** the account a transaction debits (none for acquisitions) *)
Definition debited (x : txn) : option (Z * Z) :=
  match x with
  | TIn _ => None
  | TOut a => Some (o_exch a, o_holder a)
  | TIntra a => Some (x_from_exch a, x_from_holder a)
  end.
(** after the prefix p ++ [x] the account debited by x is more than [tol] grid units (1e-11) below zero *)
Definition overdrawn_at (tol : Z) (p : list txn) (x : txn) : Prop :=
  match debited x with
  | Some (ex, ho) => balance_after ex ho (p ++ [x]) < - tol
  | None => False
  end.

(** * reconciliation *)
(** what the matcher leaves unconsumed in the lots *)
Definition unsold (lots : list intx) (fs : list fraction) : Z :=
  sumZ (map (fun l => i_crypto_in l - lot_taken fs (i_row l)) lots).
(** the optional crypto_out_with_fee column, when supplied, is amount + fee *)
Definition outs_consistent (t : txs) : Prop :=
  forall a, In a (t_outs t) -> o_crypto_out_with_fee a = o_crypto_out_no_fee a + o_crypto_fee a.
(** the fee of a transfer is what was sent minus what arrived (established by the constructor) *)
Definition intras_consistent (t : txs) : Prop :=
  forall a, In a (t_intras t) -> x_crypto_fee a = x_crypto_sent a - x_crypto_received a.
(** a transfer fee is never negative (established by the constructor: crypto_sent >= crypto_received) *)
Definition fees_nonneg (t : txs) : Prop := forall a, In a (t_intras t) -> 0 <= x_crypto_fee a.
(** every transfer with a non-zero fee is a taxable event, so the matcher takes the fee from a lot.  Under the rule before
    the repair of finding F8 (fiat value of the fee > 0 at 13 decimals) this failed for dust fees; under the rule of the
    source as it is now it follows from [fees_nonneg] (Proofs/TransferFee.v: [no_dust_fee_of_nonneg], [built_no_dust_fee]) *)
Definition no_dust_fee (t : txs) : Prop :=
  forall a, In a (t_intras t) -> x_crypto_fee a <> 0 -> intra_is_taxable a = true.
(** no to-date cut: every transaction is dated up to to_day *)
Definition no_cut (to_day : Z) (t : txs) : Prop := forall x, In x (replay_order t) -> txn_day x <= to_day.

(** * the whole computation: matcher, then aggregation of its fractions *)
Definition compute_tax (period from_day to_day : Z) (allow : bool) (exs hos : list str) (sched : list (Z * meth)) (t : txs)
  : result computed :=
  match fractions_of gen_always_repush sched t with
  | Err e => Err e
  | Ok fs => compute period from_day to_day allow exs hos t fs
  end.

(** * views *)
(** [view] shows rows of [all] that are dated inside the window, in the same order, and is an initial
    segment of the rows of [all] dated in the window *)
Definition window_view {A} (day : A -> Z) (from_day to_day : Z) (all view : list A) : Prop :=
  (forall x, In x view -> In x all /\ from_day <= day x <= to_day) /\
  exists rest, filter (fun x => in_window from_day to_day (day x)) all = view ++ rest.
(** local dates never decrease with the instant (true when all timestamps carry the same UTC offset) *)
Definition dates_monotone (t : txs) : Prop :=
  forall x y, In x (replay_order t) -> In y (replay_order t) -> t_us x <= t_us y -> txn_day x <= txn_day y.
(** the three transaction lists are sorted by instant (what [build] produces) *)
Definition time_sorted (t : txs) : Prop :=
  StronglySorted (fun a b => in_us a <= in_us b) (t_ins t) /\
  StronglySorted (fun a b => out_us a <= out_us b) (t_outs t) /\
  StronglySorted (fun a b => intra_us a <= intra_us b) (t_intras t).
