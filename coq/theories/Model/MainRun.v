(** L6 -- control flow of one run of a country entry point (rp2_main._rp2_main_internal):
    argparse choices, language lookup, -m vs [accounting_methods], schedule construction,
    parse+compute of ALL assets before any report generator runs, generator discovery order,
    template lookup by (country, generator, language), output file names, and the single
    try/except (exit 1, files written by earlier generators stay).

    The report generators themselves (L5) are not re-modelled here: a generator "succeeds unless
    one of the known failure conditions holds"; those conditions are facts about the input that the
    harness computes independently ([asset_facts]) and flags about the source that the translator
    regenerates (Generated.v: gen_single_schedule_any_year, gen_summary_link_guarded, tax_us_types, tax_ie_types,
    gen_jp_rejects_from_and_to).  Tables (country_methods etc., template_inventory, locale_inventory,
    method_plugins, report_plugins_common, report_plugins_country) are regenerated from the working tree on every run. *)
From RP2V Require Import Base.Prelude Base.Sorting Model.Types.
From RP2V Require Import Model.Generated.
Open Scope Z_scope.

Definition str_in (s : str) (l : list str) : bool := existsb (str_eqb s) l.

Definition MIN_DAY : Z := 0.            (* date(1970, 1, 1) *)
Definition MAX_DAY : Z := 2932896.      (* date(9999, 12, 31) *)
Definition MIN_YEAR : Z := 1970.

Definition s_mixed : str := [109; 105; 120; 101; 100].          (* "mixed" *)
Definition c_us : Z := 95.                                     (* "_" *)
Definition c_dot : Z := 46.                                    (* "." *)
Definition c_slash : Z := 47.                                  (* "/" *)

Record options := {
  o_method : option str;        (* -m *)
  o_lang : option str;          (* -g *)
  o_from : Z;                   (* -f as day number, default MIN_DAY *)
  o_to : Z;                     (* -t, default MAX_DAY *)
  o_asset : option str;         (* -a *)
  o_neg : bool;                 (* -n *)
  o_prefix : str;               (* -p *)
  o_plugin : bool }.            (* deprecated -l given *)

Record config := {
  cf_assets : list str;                 (* [general] assets (a set: any order) *)
  cf_sched : list (Z * str) }.          (* [accounting_methods] year = name, file order *)

(** what the run needs to know about one asset's sheet (computed by the harness from the generated
    history, independently of rp2) *)
Record asset_facts := {
  af_name : str;
  af_present : bool;            (* the asset is configured, its sheet exists and is well formed *)
  af_negative : bool;           (* some account balance goes negative *)
  af_event_types : list ttype;  (* types of the taxable events dated inside the window *)
  af_hidden_year : bool;        (* a year >= from-year has a summary line but no detail row inside the window *)
  af_holders : Z }.             (* holders that appear in the balance table *)

Definition gen_code (g : gen_id) : Z :=
  match g with GOpenPositions => 0 | GFullReport => 1 | GTaxUS => 2 | GTaxJP => 3 | GTaxIE => 4 end.
Definition gen_eqb (a b : gen_id) : bool := gen_code a =? gen_code b.
Definition gen_in (g : gen_id) (l : list gen_id) : bool := existsb (gen_eqb g) l.
Definition all_gens : list gen_id := [GOpenPositions; GFullReport; GTaxUS; GTaxJP; GTaxIE].
Definition all_countries : list country := [US; ES; JP; IE; GENERIC].
Definition all_meths : list meth := [Fifo; Lifo; Hifo; Lofo].

(** ---- argparse: -m has [choices] = sorted(plugins found) /\ country.get_accounting_methods() *)
Definition accepted_method_names (c : country) : list str :=
  filter (fun p => str_in p (map meth_name (country_methods c))) method_plugins.

(** ---- generation language: -g or the country default; gettext needs a catalogue *)
Definition language (c : country) (o : options) : str :=
  match o_lang o with Some l => l | None => country_default_language c end.

(** ---- years_2_accounting_method_names *)
Inductive sched_result := SchedOk (s : list (Z * str)) | SchedConflict.
Definition schedule (c : country) (o : options) (cf : config) : sched_result :=
  match o_method o, cf_sched cf with
  | Some _, _ :: _ => SchedConflict
  | None, (_ :: _) as s => SchedOk s
  | Some m, [] => SchedOk [(MIN_YEAR, m)]
  | None, [] => SchedOk [(MIN_YEAR, meth_name (country_default_method c))]
  end.

Fixpoint lookup_year (y : Z) (s : list (Z * str)) : option str :=
  match s with [] => None | (y', m) :: t => if y' =? y then Some m else lookup_year y t end.

(** the "<method>" part of the output file names; None = KeyError (single entry not keyed 1970
    while the code indexes the dictionary with MIN_DATE.year) *)
Definition method_label (s : list (Z * str)) : option str :=
  match s with
  | [(y, m)] => if gen_single_schedule_any_year then Some m else lookup_year MIN_YEAR s
  | _ => Some s_mixed
  end.

(** ---- report generator discovery: iter_modules over rp2.plugin.report, then rp2.plugin.report.<iso> *)
Definition gen_path (g : gen_id) : str :=
  match gen_package g with [] => gen_module g | p => p ++ [c_dot] ++ gen_module g end.
Definition find_gen (path : str) (gs : list gen_id) : option gen_id := find (fun g => str_eqb (gen_path g) path) gs.
Fixpoint filter_map {A B} (f : A -> option B) (l : list A) : list B :=
  match l with [] => [] | x :: t => match f x with Some y => y :: filter_map f t | None => filter_map f t end end.
Definition discovery (c : country) : list gen_id :=
  filter_map (fun m => find_gen m (country_generators c)) report_plugins_common ++
  filter_map (fun m => find_gen (country_iso c ++ [c_dot] ++ m) (country_generators c)) (report_plugins_country c).
Definition undiscovered (c : country) : list gen_id :=
  filter (fun g => negb (gen_in g (discovery c))) (country_generators c).

(** ---- template lookup: data/<iso>/template_<name>_<language>.ods (or a valid .txt link) *)
Definition template_stem (g : gen_id) (lang : str) : str := gen_template g ++ [c_us] ++ lang.
Definition template_entry (c : country) (g : gen_id) (lang : str) : option (str * str * list str) :=
  find (fun e => match e with (d, stem, _) => str_eqb d (country_iso c) && str_eqb stem (template_stem g lang) end) template_inventory.
Definition template_exists (c : country) (g : gen_id) (lang : str) : bool :=
  match template_entry c g lang with Some _ => true | None => false end.
(** the legend sheet the writer looks up right after opening the template *)
Definition legend_sheet (g : gen_id) : str := [95; 95; 76; 101; 103; 101; 110; 100; 95] ++ gen_module g.   (* "__Legend_" ++ module *)
Definition template_usable (c : country) (g : gen_id) (lang : str) : bool :=
  match template_entry c g lang with Some (_, _, sheets) => str_in (legend_sheet g) sheets | None => false end.

(** languages a country ships: a catalogue exists and every generator of the country has a template *)
Definition shipped (c : country) (lang : str) : bool :=
  str_in lang locale_inventory && forallb (fun g => template_usable c g lang) (country_generators c).

(** ---- one generator: Some file name on success, None when it raises *)
Definition output_name (o : options) (label : str) (g : gen_id) : str :=
  o_prefix o ++ label ++ [c_us] ++ gen_output_file g.

Definition types_covered (types : list ttype) (a : asset_facts) : bool :=
  forallb (fun t => ttype_in t types) (af_event_types a).

Definition generator_fails_on_input (g : gen_id) (inp : list asset_facts) : bool :=
  match g with
  | GFullReport => existsb (fun a => (negb gen_summary_link_guarded && af_hidden_year a) || (21 <? af_holders a)) inp
  | GTaxUS => negb (forallb (types_covered tax_us_types) inp)
  | GTaxIE => negb (forallb (types_covered tax_ie_types) inp)
  | _ => false
  end.

Definition run_generator (c : country) (o : options) (lang : str) (s : list (Z * str)) (inp : list asset_facts) (g : gen_id)
  : option str :=
  if (gen_eqb g GTaxJP && gen_jp_rejects_from_and_to && negb (o_from o =? MIN_DAY) && negb (o_to o =? MAX_DAY))%bool then None else
  if negb (template_usable c g lang) then None else
  match method_label s with
  | None => None
  | Some label => if generator_fails_on_input g inp then None else Some (output_name o label g)
  end.

(** generators run in discovery order; the first failure ends the run with exit 1, files already
    written stay; configured generators that were not discovered -> exit 1 after the others ran *)
Fixpoint run_generators (c : country) (o : options) (lang : str) (s : list (Z * str)) (inp : list asset_facts)
  (gs : list gen_id) (written : list str) : Z * list str :=
  match gs with
  | [] => (match undiscovered c with [] => 0 | _ => 1 end, written)
  | g :: t => match run_generator c o lang s inp g with
              | Some f => run_generators c o lang s inp t (written ++ [f])
              | None => (1, written)
              end
  end.

(** ---- assets processed: -a or all configured assets, sorted *)
Definition assets_to_process (o : options) (cf : config) : list str :=
  match o_asset o with Some a => [a] | None => sort_leb str_leb (cf_assets cf) end.
Definition facts_of (inp : list asset_facts) (a : str) : option asset_facts := find (fun f => str_eqb (af_name f) a) inp.
Definition asset_computes (o : options) (inp : list asset_facts) (a : str) : bool :=
  match facts_of inp a with
  | Some f => af_present f && (o_neg o || negb (af_negative f))
  | None => false
  end.
Definition processed_facts (o : options) (cf : config) (inp : list asset_facts) : list asset_facts :=
  filter_map (facts_of inp) (assets_to_process o cf).

(** ---- the run: exit status and the report files written (names inside the output directory, in order) *)
Definition run (c : country) (o : options) (cf : config) (inp : list asset_facts) : Z * list str :=
  (* argparse: invalid choice for -m -> usage, exit 2 *)
  let bad_choice := match o_method o with Some m => negb (str_in m (accepted_method_names c)) | None => false end in
  if bad_choice then (2, []) else
  let lang := language c o in
  (* set_generation_language runs before the try block: uncaught RP2ValueError -> exit 1 *)
  if negb (str_in lang locale_inventory) then (1, []) else
  (* Configuration(): from_date > to_date *)
  if o_to o <? o_from o then (1, []) else
  match schedule c o cf with
  | SchedConflict => (1, [])
  | SchedOk s =>
    if negb (forallb (fun e => str_in (snd e) method_plugins) s) then (1, []) else
    if o_plugin o then (1, []) else
    if negb (forallb (asset_computes o inp) (assets_to_process o cf)) then (1, []) else
    run_generators c o lang s (processed_facts o cf inp) (discovery c) []
  end.

(** ---- what a run may write (C18): the log file and the report files of the configured generators *)
Definition s_log_prefix : str := [46; 47; 108; 111; 103; 47; 114; 112; 50; 95].   (* "./log/rp2_" *)
Definition s_log_suffix : str := [46; 108; 111; 103].                            (* ".log" *)

Inductive wpath :=
| WLog (stamp : str)                 (* ./log/rp2_<stamp>.log, relative to the current directory *)
| WOut (dir : str) (name : str).     (* <output_dir>/<name> *)

Definition render (p : wpath) : str :=
  match p with
  | WLog stamp => s_log_prefix ++ stamp ++ s_log_suffix
  | WOut dir name => dir ++ [c_slash] ++ name
  end.

Definition write_set (c : country) (o : options) (cf : config) (stamp outdir : str) : list wpath :=
  WLog stamp ::
  match schedule c o cf with
  | SchedOk s => match method_label s with
                 | Some label => map (fun g => WOut outdir (output_name o label g)) (discovery c)
                 | None => []
                 end
  | SchedConflict => []
  end.
