(** END TO END -- one run of a country entry point, from the CELLS of the input workbook and the sections of the
    configuration file to the exit status and the produced reports, as the literal composition of the layer models:

      L1  [ConfigModel.front_end]: [validate_config], [options_check], every asset's sheet parsed with [parse_sheet]
          before anything else ([parse_all]); a rejection = non-zero exit, no report;
      L1 -> L2  [TableOrderSpec.txs_of_parsed]: the parsed transactions become the time-sorted transaction sets (InputData /
          TransactionSet: duplicate ids rejected, the IN set not empty) -- the second half of [Pipeline.build];
      L2  [Pipeline.fractions_of gen_always_repush sched]: taxable events + the matcher under the run's schedule;
      L4/L5/L6  the [ReportInput.rinput] assembled in SORTED asset order, with the window (-f / -t), -n, the long-term period of
          the country and the schedule ([MainRun.schedule]) taken from options + configuration; [RunCompose.run_reports]
          (ComputedData of every asset, then the modelled report generators in discovery order) and [MainRun.run] (the
          control flow of rp2_main: option checks, language, templates, output names, known failure conditions) on the facts
          computed from that rinput ([RunCompose.inp_of_rinput]).

    Only glue is defined here; every stage is an existing definition.  Definitions only (proofs: Proofs/EndToEnd.v). *)
From RP2V Require Import Base.Prelude Base.Time Base.Dec Base.Sorting Base.Assoc Model.Types Model.Generated Model.Txn
  Model.Matcher Model.Pipeline Model.Parser Model.Render Model.TableOrderSpec Model.Computed Model.Grid Model.ReportInput
  Model.MainRun Model.RunCompose Model.ConfigModel.
Open Scope Z_scope.

(** * the two views of the command line and of the validated configuration *)
(** what the front end (L1) reads of the options of a run *)
Definition l1_options (o : MainRun.options) : ConfigModel.options :=
  {| op_method := o_method o; op_from_day := o_from o; op_to_day := o_to o; op_asset := o_asset o |}.
(** what the control flow of rp2_main (L6) reads of the validated configuration *)
Definition l6_config (s : cstate) : MainRun.config := {| cf_assets := cs_assets s; cf_sched := cs_methods s |}.

(** * the front end with an arbitrary kind of report
    [ConfigModel.front_end] fixes the reports to file names ([list str]); this is the same function for any [X]
    (Proofs/EndToEnd.v [front_end_of_str]: at [X := str] it IS [front_end], by reflexivity; [front_end_of_map]: mapping the
    reports of the continuation commutes with it). *)
Definition front_end_of {X : Type} (c : country) (o : ConfigModel.options) (secs : list (str * list (str * str)))
  (ts : list (str * ts_res)) (workbook : str -> option (list (list cell))) (back : list (str * parsed) -> Z * list X) : Z * list X :=
  let cfg := validate_config secs in
  let '(code, assets) := options_check c o cfg in
  if negb (code =? 0) then (code, []) else
  match cfg with
  | Err _ => (1, [])
  | Ok s => match parse_all (pcfg_of s ts) assets workbook 0 with
            | Err _ => (1, [])
            | Ok ps => back ps
            end
  end.

(** * from the parsed assets to the report input *)
(** years_2_accounting_method_names -> the accounting methods (import of the method plugin named by each entry) *)
Fixpoint sched_meths (s : list (Z * str)) : option (list (Z * meth)) :=
  match s with
  | [] => Some []
  | (y, n) :: t => match meth_of_name n, sched_meths t with
                   | Some m, Some r => Some ((y, m) :: r)
                   | _, _ => None
                   end
  end.
(** the schedule of the run: -m, or [accounting_methods], or the country's default method ([MainRun.schedule]) *)
Definition e2e_sched (c : country) (o : MainRun.options) (s : cstate) : option (list (Z * meth)) :=
  match schedule c o (l6_config s) with
  | SchedOk names => sched_meths names
  | SchedConflict => None
  end.

(** one asset: the transaction sets of its parsed sheet, and the matcher's fractions under the schedule *)
Definition asset_of (sched : list (Z * meth)) (ap : str * parsed) : result rasset :=
  match txs_of_parsed (snd ap) with
  | Err e => Err e
  | Ok t => match fractions_of gen_always_repush sched t with
            | Err e => Err e
            | Ok fs => Ok {| ra_name := fst ap; ra_txs := t; ra_fracs := fs |}
            end
  end.

(** rp2_main: [assets.sort()] *)
Definition by_name (x y : str * parsed) : bool := str_leb (fst x) (fst y).

(** [envp]: the long-term period the GENERIC entry point reads from its environment ([Generated.country_period]) *)
Definition rinput_of (c : country) (o : MainRun.options) (envp : Z) (s : cstate) (sched : list (Z * meth)) (assets : list rasset)
  : rinput :=
  {| rp_country := c; rp_period := country_period c envp; rp_from := o_from o; rp_to := o_to o; rp_allow := o_neg o;
     rp_exchanges := cs_exchanges s; rp_holders := cs_holders s; rp_sched := sched; rp_assets := assets |}.

(** the report input of the run; None = the schedule cannot be built, or InputData / the matcher rejects some asset *)
Definition e2e_input (c : country) (o : MainRun.options) (envp : Z) (s : cstate) (ps : list (str * parsed)) : option rinput :=
  match e2e_sched c o s with
  | None => None
  | Some sched =>
    match map_result (asset_of sched) (sort_leb by_name ps) with
    | Err _ => None
    | Ok assets => Some (rinput_of c o envp s sched assets)
    end
  end.

(** * the back end: ComputedData of every asset, then the generators
    [MainRun.run] on the facts computed from the rinput decides what the control flow of rp2_main does (argparse choices,
    language, -l, schedule, "every processed asset computes", templates, output names, F7 / F12); [RunCompose.run_reports]
    runs the generator MODELS.  The run exits 0 with the reports of [run_reports] when both succeed; otherwise the exit
    status is non-zero and the reports that stay are those written before the first failure of either. *)
Definition reports_of (c : country) (o : MainRun.options) (cf : MainRun.config) (v : renv) (i : rinput)
  : Z * list (gen_id * list sheetw) :=
  let r := run c o cf (inp_of_rinput i) in
  match run_reports c v i with
  | Ok l => if fst r =? 0 then (0, l) else (fst r, firstn (length (snd r)) l)
  | Err _ => ((if fst r =? 0 then 1 else fst r), firstn (length (snd r)) (fst (run_reports_trace c v i)))
  end.

Definition back_end (c : country) (o : MainRun.options) (v : renv) (envp : Z) (s : cstate) (ps : list (str * parsed))
  : Z * list (gen_id * list sheetw) :=
  match e2e_input c o envp s ps with
  | None => (1, [])
  | Some i => reports_of c o (l6_config s) v i
  end.

(** * the run *)
Definition rp2_model (c : country) (o : MainRun.options) (secs : list (str * list (str * str))) (ts : list (str * ts_res))
  (workbook : str -> option (list (list cell))) (v : renv) (envp : Z) : Z * list (gen_id * list sheetw) :=
  front_end_of c (l1_options o) secs ts workbook
    (fun ps => match validate_config secs with
               | Ok s => back_end c o v envp s ps
               | Err _ => (1, [])
               end).

(** the file-name view of the same run: [ConfigModel.front_end] itself, with the back end's reports named as rp2_main
    names them (Proofs/EndToEnd.v [rp2_model_files]: it is the image of [rp2_model]) *)
Definition report_file (c : country) (o : MainRun.options) (s : cstate) (gs : gen_id * list sheetw) : str :=
  output_name o (match schedule c o (l6_config s) with
                 | SchedOk names => match method_label names with Some l => l | None => [] end
                 | SchedConflict => []
                 end) (fst gs).
Definition rp2_files (c : country) (o : MainRun.options) (secs : list (str * list (str * str))) (ts : list (str * ts_res))
  (workbook : str -> option (list (list cell))) (v : renv) (envp : Z) : Z * list str :=
  front_end c (l1_options o) secs ts workbook
    (fun ps => match validate_config secs with
               | Ok s => let r := back_end c o v envp s ps in (fst r, map (report_file c o s) (snd r))
               | Err _ => (1, [])
               end).

(** * vocabulary for the statements about sheets given as rendered blocks *)
(** the typed data rows of a sheet with their sheet row numbers, top to bottom *)
Fixpoint number_rows (n : Z) (l : list srow) : list (Z * srow) :=
  match l with [] => [] | x :: t => (n, x) :: number_rows (n + 1) t end.
Fixpoint typed_rows (rowno : Z) (blocks : list block) : list (Z * srow) :=
  match blocks with
  | [] => []
  | b :: t => number_rows (rowno + Z.of_nat (length (b_gap b)) + 2) (map fst (b_rows b)) ++ typed_rows (rowno + block_len b) t
  end.

(** the raw rows (constructor arguments) the typed rows resolve to under the configuration: the INPUT ROWS of the sheet in
    the vocabulary of Pipeline.v ([hist]) -- computed from the typed rows alone ([Render.raw_of_in] / [raw_of_out] /
    [raw_of_intra]: strings resolved against the configuration, numbers converted by [num11], row id = sheet row) *)
Definition raw_in_of (cfg : pcfg) (nr : Z * srow) : option raw_in :=
  match snd nr with SIn s => raw_of_in cfg (fst nr) s | _ => None end.
Definition raw_out_of (cfg : pcfg) (nr : Z * srow) : option raw_out :=
  match snd nr with SOut s => raw_of_out cfg (fst nr) s | _ => None end.
Definition raw_intra_of (cfg : pcfg) (nr : Z * srow) : option raw_intra :=
  match snd nr with SIntra s => raw_of_intra cfg (fst nr) s | _ => None end.
Definition hist_of_rows (cfg : pcfg) (l : list (Z * srow)) : hist :=
  {| h_ins := filter_map (raw_in_of cfg) l; h_outs := filter_map (raw_out_of cfg) l; h_intras := filter_map (raw_intra_of cfg) l |}.
Definition sheet_hist (cfg : pcfg) (blocks : list block) : hist := hist_of_rows cfg (typed_rows 1 blocks).

(** no acquisition row carries a crypto fee (empty / zero / unmapped crypto_fee cell): the parser then creates no artificial
    fee disposal, and the parsed transactions are exactly the constructors applied to the raw rows *)
Definition no_crypto_fee (h : hist) : Prop := forall r, In r (h_ins h) -> truthy (ri_crypto_fee r) = false.

(** the transactions expected for every asset, the artificial-id counter threaded in the order the sheets are read *)
Fixpoint expected_all (cfg : pcfg) (sheet : str -> list block) (assets : list str) (counter : Z) : result (list (str * parsed)) :=
  match assets with
  | [] => Ok []
  | a :: rest =>
    match expected cfg counter (sheet a) with
    | Err e => Err e
    | Ok p => match expected_all cfg sheet rest (pa_counter p) with Err e => Err e | Ok ps => Ok ((a, p) :: ps) end
    end
  end.

(** every processed asset has a sheet, and it is the rendering of well-formed tables of pairwise distinct types (any order,
    any column layout, any junk in unmapped columns, blank rows between and after) *)
Definition rendered_workbook (cfg : pcfg) (workbook : str -> option (list (list cell))) (sheet : str -> list block)
  (trailing : str -> list (list cell)) (assets : list str) : Prop :=
  forall a, In a assets ->
    workbook a = Some (render_sheet cfg a (sheet a) (trailing a)) /\
    wf_blocks cfg a 1 (sheet a) /\
    NoDup (map (fun b => tab_code (b_tab b)) (sheet a)) /\
    (forall r, In r (trailing a) -> is_blank_row r = true).

(** the assets a run processes: -a, or all configured assets (in the order of the configuration; [e2e_input] sorts) *)
Definition run_assets (o : MainRun.options) (s : cstate) : list str :=
  match o_asset o with Some a => [a] | None => cs_assets s end.
