(** Vocabulary for property C09 on the aggregation layer: a history truncated at a date, a history extended
    after an instant, and the part of a result that a to-date leaves visible.  Definitions only. *)
From RP2V Require Import Base.Prelude Base.Time Base.Dec Base.Assoc Model.Types Model.Generated Model.Txn
  Model.Matcher Model.Pipeline Model.Computed Model.ComputedSpec.
Open Scope Z_scope.

(** the transactions dated (local date) up to [to_day] *)
Definition trunc_txs (to_day : Z) (t : txs) : txs :=
  {| t_ins := filter (fun a => in_day a <=? to_day) (t_ins t);
     t_outs := filter (fun a => out_day a <=? to_day) (t_outs t);
     t_intras := filter (fun a => intra_day a <=? to_day) (t_intras t) |}.
(** the fractions whose taxable event is dated up to [to_day] ([evs] = the taxable events of the full history) *)
Definition frac_kept (to_day : Z) (evs : list txn) (f : fraction) : bool :=
  match find_ev evs (f_ev f) with Some e => txn_day e <=? to_day | None => false end.
Definition trunc_fracs (to_day : Z) (evs : list txn) (fs : list fraction) : list fraction := filter (frac_kept to_day evs) fs.

(** every fraction's lot was acquired at or before the instant of its event (what the matcher guarantees: C01_order) *)
Definition lots_precede_events (gls : list gl) : Prop :=
  forall g a, In g gls -> g_lot g = Some a -> in_us a <= t_us (g_ev g).

(** what a run with to-date [to_day] on the history [t] keeps of its internal (unfiltered) tables: the detail table
    and the running sums are cut at the to-date; every reported field is left as it is *)
Definition restrict (to_day : Z) (t : txs) (cd : computed) : computed :=
  let t' := trunc_txs to_day t in
  let cut := take_until g_day to_day (cd_all_gls cd) in
  {| cd_events := cd_events cd; cd_gls := cd_gls cd; cd_evfrac := cd_evfrac cd; cd_lotfrac := cd_lotfrac cd;
     cd_gl_running := running g_amt 0 cut; cd_all_gls := cut;
     cd_yearly := cd_yearly cd; cd_balances := cd_balances cd; cd_price := cd_price cd;
     cd_ins := cd_ins cd; cd_outs := cd_outs cd; cd_intras := cd_intras cd;
     cd_in_running := zip3 (map i_row (t_ins t')) (running i_crypto_in 0 (t_ins t')) (running i_crypto_fee 0 (t_ins t'));
     cd_out_running := zip3 (map o_row (t_outs t')) (running o_crypto_out_no_fee 0 (t_outs t')) (running o_crypto_fee 0 (t_outs t'));
     cd_intra_running := combine (map x_row (t_intras t')) (running x_crypto_fee 0 (t_intras t'));
     cd_sold_pct := cd_sold_pct cd |}.

(** [t2] is [t] plus transactions that all happen after the instant [T], while everything in [t] happens at or before [T] *)
Definition extends_after (T : Z) (t t2 : txs) : Prop :=
  exists ins2 outs2 intras2,
    t_ins t2 = t_ins t ++ ins2 /\ t_outs t2 = t_outs t ++ outs2 /\ t_intras t2 = t_intras t ++ intras2 /\
    (forall a, In a (t_ins t) -> in_us a <= T) /\ (forall a, In a (t_outs t) -> out_us a <= T) /\
    (forall a, In a (t_intras t) -> intra_us a <= T) /\
    (forall a, In a ins2 -> T < in_us a) /\ (forall a, In a outs2 -> T < out_us a) /\ (forall a, In a intras2 -> T < intra_us a).
