(** Entry points of the executable model: every layer is exposed as a function
    [list Z -> list Z] selected by a command number, so that the OCaml driver
    only converts integers.  Decoding of the flat integer stream into model
    records is done here, in Gallina. *)
From RP2V Require Import Base.Prelude Base.Time Base.Dec Model.Types Model.Generated Model.Txn Model.Matcher
  Model.MatchSpec Model.Pipeline Model.Codec Model.Computed Model.Parser.
Open Scope Z_scope.

Definition b2z (b : bool) : Z := if b then 1 else 0.
Definition country_of_code (c : Z) : country :=
  if c =? 0 then US else if c =? 1 then ES else if c =? 2 then JP else if c =? 3 then IE else GENERIC.

Definition dummy_out (ts : tstamp) : txn :=
  TOut {| o_row := 2; o_ts := ts; o_exch := 0; o_holder := 0; o_type := SELL;
          o_spot := 1; o_crypto_out_no_fee := 1; o_crypto_fee := 0; o_crypto_out_with_fee := 1;
          o_fiat_out_no_fee := dzero; o_fiat_fee := dzero; o_fiat_out_with_fee := dzero |}.
Definition dummy_in (ts : tstamp) (ty : ttype) : intx :=
  {| i_row := 1; i_ts := ts; i_exch := 0; i_holder := 0; i_type := ty;
     i_spot := 1; i_crypto_in := 1; i_crypto_fee := 0;
     i_fiat_in_no_fee := dzero; i_fiat_in_with_fee := dzero; i_fiat_fee := dzero |}.

(** cmd 1 -- C05: [country; env_period; has_lot; ev_us; ev_off; lot_us; lot_off] -> [flag; period] *)
Definition entry_is_long (a : list Z) : list Z :=
  match a with
  | [c; env; has_lot; eu; eo; lu; lo] =>
    let period := country_period (country_of_code c) env in
    let ets := {| utc_us := eu; off_s := eo |} in
    let lts := {| utc_us := lu; off_s := lo |} in
    if has_lot =? 1
    then [b2z (gl_is_long period (dummy_out ets) (Some (dummy_in lts BUY))); period]
    else [b2z (gl_is_long period (TIn (dummy_in ets INTEREST)) None); period]
  | _ => [-1]
  end.

(** cmd 2 -- time: [utc_us; off_s] -> [local_day; local_year; y; m; d] *)
Definition entry_time (a : list Z) : list Z :=
  match a with
  | [u; o] =>
    let t := {| utc_us := u; off_s := o |} in
    let '(y, m, d) := ymd_of_day (local_day t) in
    [local_day t; local_year t; y; m; d]
  | _ => [-1]
  end.

(** cmd 3 -- decimal ops: [op; m1; e1; m2; e2] -> [ok; m; e] (ok = 0: Python raises) *)
Definition entry_dec (a : list Z) : list Z :=
  match a with
  | [op; m1; e1; m2; e2] =>
    let x := (m1, e1) in let y := (m2, e2) in
    let d r := [1; fst r; snd r] in
    let ob (o : option bool) := match o with Some b => [1; b2z b; 0] | None => [0; 0; 0] end in
    if op =? 0 then d (dadd x y) else
    if op =? 1 then d (dsub x y) else
    if op =? 2 then d (dmul x y) else
    if op =? 3 then match ddiv x y with Some r => d r | None => [0; 0; 0] end else
    if op =? 4 then ob (deq x y) else
    if op =? 5 then ob (dgt x y) else
    if op =? 6 then ob (dge x y) else
    if op =? 7 then match quant 10 (dsub x y) with Some r => [1; r; -10] | None => [0; 0; 0] end else
    [-1]
  | _ => [-1]
  end.

(** cmd 10 -- matcher as the code has it: [sched; hist] -> fractions
    cmd 11 -- greedy specification on the same input
    cmd 12 -- matcher with the re-push forced on (the repaired algorithm) *)
Definition with_case (a : list Z) (f : list (Z * meth) -> txs -> list Z) : list Z :=
  match rd_list rd_sched_entry a with
  | None => [-1]
  | Some (sched, s1) =>
    match rd_hist s1 with
    | None => [-1]
    | Some (h, _) => match build h with Err e => [err_code e] | Ok t => f sched t end
    end
  end.
Definition entry_match (a : list Z) : list Z := with_case a (fun sched t => enc_fracs (fractions_of gen_always_repush sched t)).
Definition entry_spec (a : list Z) : list Z := with_case a (fun sched t => enc_fracs (spec_fractions_of sched t)).
Definition entry_match_repush (a : list Z) : list Z := with_case a (fun sched t => enc_fracs (fractions_of true sched t)).

(** cmd 13 -- taxable events: rows in order, with class and earn flag *)
Definition entry_events (a : list Z) : list Z :=
  with_case a (fun _ t => match taxable_events t with
                          | Err e => [err_code e]
                          | Ok evs => 0 :: Z.of_nat (length evs) :: flat_map (fun e => [t_row e; t_class e; b2z (t_is_earning e); t_balance_change e]) evs
                          end).

(** cmd 30 -- ComputedData from the transactions and a given list of fractions (normally the
    implementation's own, so that this layer is compared in isolation from the matcher):
    [period; from_day; to_day; allow; exchanges; holders; sched; hist; fractions] *)
Definition entry_computed (a : list Z) : list Z :=
  match a with
  | period :: from_day :: to_day :: allow :: s0 =>
    match rd_list rd_str s0 with
    | None => [-1]
    | Some (exs, s1) =>
      match rd_list rd_str s1 with
      | None => [-1]
      | Some (hos, s2) =>
        match rd_list rd_sched_entry s2 with
        | None => [-1]
        | Some (_, s3) =>
          match rd_hist s3 with
          | None => [-1]
          | Some (h, s4) =>
            match rd_list rd_frac s4 with
            | None => [-1]
            | Some (fs, _) =>
              match build h with
              | Err e => [err_code e]
              | Ok t =>
                match compute period from_day to_day (allow =? 1) exs hos t fs with
                | Ok c => enc_computed period c
                | Err ENegBalance =>
                  let all := Sorting.sort_by t_us (map TIn (t_ins t) ++ map TIntra (t_intras t) ++ map TOut (t_outs t)) in
                  match first_negative (allow =? 1) {| bs_acq := []; bs_sent := []; bs_recv := []; bs_final := [] |}
                                       (take_until (fun x => local_day (t_ts x)) to_day all) with
                  | Some (ex, ho) => [7; ex; ho]
                  | None => [7; -1; -1]
                  end
                | Err e => [err_code e]
                end
              end
            end
          end
        end
      end
    end
  | _ => [-1]
  end.

(** cmd 40 -- parse one sheet: [in_header; out_header; intra_header; assets; exchanges; holders; asset; counter;
    timestamp oracle; rows] -> constructed transactions in insertion order *)
Definition entry_parse (a : list Z) : list Z :=
  match rd_list rd_pair a with None => [-1] | Some (hi, s1) =>
  match rd_list rd_pair s1 with None => [-1] | Some (ho, s2) =>
  match rd_list rd_pair s2 with None => [-1] | Some (hx, s3) =>
  match rd_list rd_str s3 with None => [-1] | Some (assets, s4) =>
  match rd_list rd_str s4 with None => [-1] | Some (exs, s5) =>
  match rd_list rd_str s5 with None => [-1] | Some (hos, s6) =>
  match rd_str s6 with None => [-1] | Some (asset, s7) =>
  match s7 with [] => [-1] | counter :: s8 =>
  match rd_list rd_tsent s8 with None => [-1] | Some (tst, s9) =>
  match rd_list (rd_list rd_cell) s9 with None => [-1] | Some (rows, _) =>
    let cfg := {| pc_in := hi; pc_out := ho; pc_intra := hx; pc_assets := assets; pc_exchanges := exs; pc_holders := hos; pc_ts := tst |} in
    match parse_sheet cfg asset counter rows with
    | Err e => [err_code e]
    | Ok p => 0 :: pa_counter p :: enc_list enc_intx (pa_ins p) ++ enc_list enc_outtx (pa_outs p) ++ enc_list enc_intratx (pa_intras p)
    end
  end end end end end end end end end end.
