(** tax_report_jp.ods as [plugin/report/jp/tax_report_jp.py] writes it (Generator.generate,
    __generate_asset, __generate_asset_year, __process_*_transaction), including its defects.

    A sheet is modelled by the sequence of operations the code performs on it -- the template's
    static cells (the sheet is a copy of the template), [insert_rows(index, 1)] and [_fill_cell]
    -- and [resolve_ops] gives every write its final position (a row inserted at or above a cell
    written earlier moves that cell down, which is how the template's lower sections end up
    below the transaction rows).

    Three structural facts of the source are parameters ([ys], [pe], and [yg], see below); the translator reads them from
    the working tree (Generated.gen_jp_years_sorted, gen_jp_prev_existing_year):
      ys = the per-asset loop iterates the years in sorted order (false: dict order = first-seen
           order over in ++ out ++ intra);
      pe = the opening-balance formulas name the sheet of the year handled in the previous loop
           iteration (false: hard-wired [year - 1]).
    Row arithmetic, columns, the formula texts of every fixed cell, template geometry and the
    translated sheet-name formats come from Generated.v (fragment jp_report). *)
From RP2V Require Import Base.Prelude Base.Time Base.Dec Base.Sorting Base.Assoc Model.Types Model.Generated Model.Txn
  Model.Pipeline Model.Computed Model.Grid Model.ReportInput.
Open Scope Z_scope.

(** ---------- sheet operations *)
Inductive op := OIns (row : Z) | OW (w : cellw).

(** final row of a cell written at row [r], given the operations performed afterwards *)
Fixpoint final_row (r : Z) (later : list op) : Z :=
  match later with
  | [] => r
  | OIns i :: t => final_row (if i <=? r then r + 1 else r) t
  | OW _ :: t => final_row r t
  end.
Fixpoint resolve_ops (ops : list op) : list cellw :=
  match ops with
  | [] => []
  | OIns _ :: t => resolve_ops t
  | OW w :: t => cw (final_row (cw_row w) t) (cw_col w) (cw_val w) :: resolve_ops t
  end.
Fixpoint count_ins (ops : list op) : Z :=
  match ops with [] => 0 | OIns _ :: t => 1 + count_ins t | OW _ :: t => count_ins t end.

Definition sheet_of (name : str) (rows cols : Z) (ops : list op) : sheetw :=
  {| sw_name := name; sw_rows := rows + count_ins ops; sw_cols := cols; sw_writes := resolve_ops ops |}.

Definition labels (cells : list (Z * Z)) : list op := map (fun rc => OW (cw (fst rc) (snd rc) PLabel)) cells.

(** ---------- texts *)
Definition upper (s : str) : str := map (fun c => if (97 <=? c) && (c <=? 122) then c - 32 else c) s.
Definition type_text (t : ttype) : str := upper (ttype_value t).

Section Lang.
Variable lang : Z.
(** [yg]: in __process_intra_transaction the yen value of a transfer fee is kept when the CRYPTO fee is > 0 (true, the
    repaired source) or when the YEN value itself is > 0 at 13 decimals (false: a fee worth less than 5e-14 yen then has a
    sold amount but no yen value -- finding F14); read from the source: Generated.gen_jp_intra_yen_guard_on_crypto *)
Variable yg : bool.
Definition tax_sheet_name (asset : str) (year : Z) : str :=
  let '(a, b, c) := gen_jp_name_fmt lang in a ++ asset ++ b ++ str_of_Z year ++ c.
Definition summary_sheet_name (year : Z) : str :=
  let '(a, b) := gen_jp_summary_fmt lang in a ++ str_of_Z year ++ b.

(** ---------- _TransactionRow *)
Record jrow := {
  jr_type : str; jr_month : Z; jr_day : Z; jr_client : str; jr_fee : dec; jr_gift : dec;
  jr_pur_amt : option dec; jr_pur_yen : option dec; jr_sale_amt : option dec; jr_sale_yen : option dec;
  jr_donated : option dec }.

Definition month_of (t : tstamp) : Z := let '(_, m, _) := ymd_of_day (local_day t) in m.
Definition dom_of (t : tstamp) : Z := let '(_, _, d) := ymd_of_day (local_day t) in d.

Definition fee_in_yen (crypto_fee spot : Z) (fiat_fee : dec) : dec :=
  if dgtb (of_grid crypto_fee) dzero then dmul (of_grid crypto_fee) (of_grid spot)
  else if dgtb fiat_fee dzero then fiat_fee else dzero.

Section Rows.
Variable exchanges : list str.
Definition exch_name (e : Z) : str := nth (Z.to_nat e) exchanges [].

Definition process_in (a : intx) : jrow :=
  let yen := dmul (of_grid (i_crypto_in a)) (of_grid (i_spot a)) in
  let income := ttype_in (i_type a) gen_jp_income_types in
  {| jr_type := type_text (i_type a); jr_month := month_of (i_ts a); jr_day := dom_of (i_ts a);
     jr_client := exch_name (i_exch a);
     jr_fee := fee_in_yen (i_crypto_fee a) (i_spot a) (i_fiat_fee a);
     jr_gift := if ttype_eqb (i_type a) GIFT then yen else dzero;
     jr_pur_amt := Some (of_grid (i_crypto_in a)); jr_pur_yen := Some yen;
     jr_sale_amt := if income then Some dzero else None;
     jr_sale_yen := if income then Some yen else None;
     jr_donated := None |}.

Definition process_out (a : outtx) : jrow :=
  let yen := dmul (of_grid (o_crypto_out_no_fee a)) (of_grid (o_spot a)) in
  let donate := ttype_eqb (o_type a) DONATE in
  {| jr_type := type_text (o_type a); jr_month := month_of (o_ts a); jr_day := dom_of (o_ts a);
     jr_client := exch_name (o_exch a);
     jr_fee := fee_in_yen (o_crypto_fee a) (o_spot a) (o_fiat_fee a);
     jr_gift := dzero;
     jr_pur_amt := None; jr_pur_yen := None;
     jr_sale_amt := Some (of_grid (o_crypto_out_with_fee a));
     jr_sale_yen := Some (if donate then dzero else yen);
     jr_donated := if donate then Some yen else None |}.

Definition process_intra (a : intratx) : jrow :=
  let fee := of_grid (x_crypto_sent a - x_crypto_received a) in
  let yen := dmul fee (of_grid (x_spot a)) in
  {| jr_type := type_text FEE; jr_month := month_of (x_ts a); jr_day := dom_of (x_ts a);
     jr_client := gen_jp_transfer lang;
     jr_fee := dzero; jr_gift := dzero;
     jr_pur_amt := None; jr_pur_yen := None;
     jr_sale_amt := if dgtb fee dzero then Some fee else None;
     jr_sale_yen := if (if yg then dgtb fee dzero else dgtb yen dzero) then Some yen else None;
     jr_donated := None |}.

Definition process (t : txn) : jrow :=
  match t with TIn a => process_in a | TOut a => process_out a | TIntra a => process_intra a end.

(** the writer's skip test: a row without purchased and without sold amount is not written
    (a transfer that lost nothing on the way) *)
Definition jr_has_row (r : jrow) : bool :=
  match jr_pur_amt r, jr_sale_amt r with None, None => false | _, _ => true end.
Definition has_row (t : txn) : bool := jr_has_row (process t).

(** "0 (￥{float(d):0,.2f})": the text is rendered by the harness from the exact decimal
    (float conversion and %-formatting are CPython's); marker code point 0, then "m e" in decimal *)
Definition donation_text (d : dec) : payload := PStr (0 :: str_of_Z (fst d) ++ [32] ++ str_of_Z (snd d)).

Definition opt_num (o : option dec) : payload := match o with Some d => PNum d | None => PEmpty end.

(** _fill_cell(None) is what ezodf answers with ValueError("invalid value: None"): a sold amount
    without a yen value (transfer fee whose yen value is 0 at 13 decimals) *)
Definition row_raises (r : jrow) : bool :=
  match jr_sale_amt r, jr_sale_yen r, jr_donated r with
  | Some _, None, None => true
  | _, _, _ => match jr_pur_amt r, jr_pur_yen r with Some _, None => true | _, _ => false end
  end.

Definition row_cells (row : Z) (r : jrow) : list cellw :=
  [cw row gen_jp_col_transaction_month (PInt (jr_month r));
   cw row gen_jp_col_transaction_day (PInt (jr_day r));
   cw row gen_jp_col_transaction_client (PStr (jr_client r));
   cw row gen_jp_col_transaction_type (PStr (jr_type r))]
  ++ (match jr_pur_amt r with
      | Some p => [cw row gen_jp_col_purchase_crypto_amount (PNum p); cw row gen_jp_col_purchase_amount_in_yen (opt_num (jr_pur_yen r))]
      | None => []
      end)
  ++ (match jr_sale_amt r with
      | Some s => [cw row gen_jp_col_sales_crypto_amount (PNum s);
                   cw row gen_jp_col_sales_amount_in_yen
                      (match jr_donated r with Some d => donation_text d | None => opt_num (jr_sale_yen r) end)]
      | None => []
      end)
  ++ [cw row gen_jp_col_fee_in_yen (PNum (jr_fee r))].

(** insert one row at [row], then fill it; rows of the list go to first, first+1, ... *)
Fixpoint rows_ops (row : Z) (rs : list jrow) : list op :=
  match rs with
  | [] => []
  | r :: t => OIns row :: map OW (row_cells row r) ++ rows_ops (row + 1) t
  end.

(** ---------- the fixed cells: f-strings of the source, rendered *)
Record jctx := { jc_row : Z; jc_off : Z; jc_name : str; jc_prev_name : str; jc_prev : Z }.
Definition render_piece (c : jctx) (p : jpiece) : str :=
  match p with
  | JLit s => s
  | JRow k => str_of_Z (jc_row c + k)
  | JOff k => str_of_Z (jc_off c + k)
  | JName => jc_name c
  | JPrevName => jc_prev_name c
  | JPrev k => str_of_Z (jc_prev c + k)
  end.
Definition render (c : jctx) (ps : list jpiece) : str := flat_map (render_piece c) ps.

(** one year of one asset, as __generate_asset hands it to __generate_asset_year *)
Record emission := {
  em_asset : str; em_year : Z;
  em_txs : list txn;            (* sorted(transaction_set, key=timestamp) *)
  em_prev_off : Z;              (* previous_year_row_offset (0 in the first iteration) *)
  em_prev_year : Z }.           (* year whose sheet the opening balance names *)

Definition em_rows (e : emission) : list jrow := filter jr_has_row (map process (em_txs e)).
Definition em_kept (e : emission) : list txn := filter has_row (em_txs e).
Definition em_row_index (e : emission) : Z := gen_jp_first_row + Z.of_nat (length (em_rows e)).
Definition em_return (e : emission) : Z := em_row_index e + gen_jp_return_delta.
Definition em_raises (e : emission) : bool := existsb row_raises (em_rows e).

Definition sum_opt (f : jrow -> option dec) (rs : list jrow) : dec :=
  fold_left (fun acc r => match f r with Some d => dadd acc d | None => acc end) rs dzero.
(** total_donations / total_gifts are accumulated over every entry of the year (also those without a row) *)
Definition em_donations (e : emission) : dec := sum_opt jr_donated (map process (em_txs e)).
Definition em_gifts (e : emission) : dec :=
  sum_opt (fun r => Some (jr_gift r)) (map process (filter (fun t => match t with TIn _ => true | _ => false end) (em_txs e))).

Definition em_ctx (e : emission) (off : Z) : jctx :=
  {| jc_row := em_row_index e; jc_off := off; jc_name := tax_sheet_name (em_asset e) (em_year e);
     jc_prev_name := tax_sheet_name (em_asset e) (em_prev_year e); jc_prev := em_prev_off e |}.

Definition tail_value (e : emission) (c : jctx) (v : jval) : payload :=
  match v with
  | JF ps => PFormula (render c ps)
  | JOpen ps => if em_prev_off e =? 0 then PInt 0 else PFormula (render c ps)
  | JAsset => PStr (em_asset e)
  | JDonations => PNum (em_donations e)
  | JGifts => PNum (em_gifts e)
  end.

(** the fixed cells below the transaction rows (source order) *)
Definition tail_cells (e : emission) : list cellw :=
  map (fun x => let '(dr, col, v) := x in cw (em_row_index e + dr) col (tail_value e (em_ctx e 0) v)) gen_jp_asset_tail.

Definition asset_ops (e : emission) : list op :=
  labels gen_jp_tmpl_asset_cells
  ++ [OW (cw (fst gen_jp_label_cell) (snd gen_jp_label_cell) (PStr (em_asset e)))]
  ++ rows_ops gen_jp_first_row (em_rows e)
  ++ map OW (tail_cells e).

Definition asset_sheet (e : emission) : sheetw :=
  sheet_of (tax_sheet_name (em_asset e) (em_year e)) gen_jp_tmpl_asset_rows gen_jp_tmpl_asset_cols (asset_ops e).

(** one line of a yearly summary sheet (insert a row at the sheet's current offset, fill it), then -- back in
    __generate_asset, after the offset has been incremented -- the totals line *)
Definition line_cells (e : emission) (off : Z) : list cellw :=
  map (fun x => cw off (fst x) (tail_value e (em_ctx e off) (snd x))) gen_jp_summary_line.
Definition totals_cells (e : emission) (off' : Z) : list cellw :=
  map (fun x => let '(dr, col, v) := x in cw (off' + dr) col (tail_value e (em_ctx e off') v)) gen_jp_summary_totals.
Definition step_ops (e : emission) (off : Z) : list op :=
  (OIns off :: map OW (line_cells e off)) ++ map OW (totals_cells e (off + 1)).

(** ---------- __generate_asset: grouping by year and the year loop *)
Section Flags.
Variables ys pe : bool.

Definition tx_year (t : txn) : Z := local_year (t_ts t).
(** years_2_transaction_sets.setdefault(entry.timestamp.year, []).append(entry) *)
Definition group_add (m : assoc (list txn)) (t : txn) : assoc (list txn) :=
  aset (tx_year t) (aget_d [] (tx_year t) m ++ [t]) m.
Definition chain_of (c : computed) : list txn := map TIn (cd_ins c) ++ map TOut (cd_outs c) ++ map TIntra (cd_intras c).
Definition year_groups (l : list txn) : assoc (list txn) := fold_left group_add l [].
Definition ordered_groups (l : list txn) : list (Z * list txn) :=
  if ys then sort_by fst (year_groups l) else year_groups l.

Fixpoint year_loop (asset : str) (prev_off prev_year : Z) (gs : list (Z * list txn)) : list emission :=
  match gs with
  | [] => []
  | (y, l) :: t =>
    let e := {| em_asset := asset; em_year := y; em_txs := sort_by t_us l; em_prev_off := prev_off;
                em_prev_year := if pe then prev_year else y - 1 |} in
    e :: year_loop asset (em_return e) y t
  end.

Definition asset_emissions (asset : str) (l : list txn) : list emission := year_loop asset 0 0 (ordered_groups l).

(** ---------- yearly summary sheets: self.__year_row_offset, created on first use *)
Record sumst := { ss_off : assoc Z; ss_sheets : assoc (list op) }.   (* both keyed by year; ss_sheets in creation order *)

Definition summary_step (st : sumst) (e : emission) : sumst :=
  let y := em_year e in
  let offm := if amem y (ss_off st) then ss_off st else aset y gen_jp_summary_start (ss_off st) in   (* setdefault(year, 7) *)
  let off := aget_d 0 y offm in
  let sheets := if off =? gen_jp_summary_start                                                      (* ... == 7: new sheet *)
                then aset y (labels gen_jp_tmpl_summary_cells) (ss_sheets st) else ss_sheets st in
  {| ss_off := aset y (off + 1) offm; ss_sheets := aset y (aget_d [] y sheets ++ step_ops e off) sheets |}.

Definition summary_state (ems : list emission) : sumst := fold_left summary_step ems {| ss_off := []; ss_sheets := [] |}.
Definition summary_sheets (ems : list emission) : list sheetw :=
  map (fun ys => sheet_of (summary_sheet_name (fst ys)) gen_jp_tmpl_summary_rows gen_jp_tmpl_summary_cols (snd ys))
      (ss_sheets (summary_state ems)).

Definition report_of (ems : list emission) : list sheetw := summary_sheets ems ++ map asset_sheet ems.
End Flags.
End Rows.
End Lang.

(** ---------- Generator.generate *)
Definition all_emissions (lang : Z) (yg ys pe : bool) (exchanges : list str) (l : list (rasset * computed)) : list emission :=
  flat_map (fun ac => asset_emissions lang yg exchanges ys pe (ra_name (fst ac)) (chain_of (snd ac))) l.

Definition jp_report (lang : Z) (yg ys pe : bool) (i : rinput) : result (list sheetw) :=
  match computed_all i (rp_assets i) with
  | Err e => Err e
  | Ok l =>
    if negb (rp_from i =? MIN_DAY) && negb (rp_to i =? MAX_DAY) then Err EInternal     (* RP2RuntimeError: F7 *)
    else
      let ems := all_emissions lang yg ys pe (rp_exchanges i) l in
      if existsb (em_raises lang yg (rp_exchanges i)) ems then Err EValue                 (* ezodf: invalid value: None *)
      else Ok (report_of lang yg (rp_exchanges i) ems)
  end.

(** the text of a cross-sheet reference  ='<name>'.<L><row1>  (row1 counted from 1, as spreadsheets do) *)
Definition sheet_ref (name : str) (col_letter : Z) (row1 : Z) : payload :=
  PFormula (61 :: 39 :: name ++ 39 :: 46 :: col_letter :: str_of_Z row1).
