(** Interpreter of the source-derived table of the crypto-fee split
    (ods_parser._create_and_process_transaction; Generated.v fragment `split`, harness/translate/frag_split.py).

    The translator reads, on every run, the guard of the split, the keyword-argument map of the re-created
    InTransaction(...) and of the artificial OutTransaction(...) (parameter -> where the value comes from) and the
    containers the transactions go to.  This file gives that DATA a meaning: [split_in_gen], [fee_out_gen],
    [ev_guard gen_split_guard], [data_row_gen].  Proofs/SplitGenProofs.v proves that, for the table of the current source,
    they are the hand-written [Parser.split_in], [Parser.fee_out], the test [0 <? i_crypto_fee a] and [Parser.data_row]
    which every theorem of the parser layer is about.  An edit of the source function changes the table; the agreement
    proofs then stop compiling.  Definitions only (the executable model does not depend on this file).

    A source that has no meaning in the model (a fiat value where a crypto amount is expected, a parameter that the model
    abstracts passed something else than the row's own value, ...) evaluates to [None] / [Err EInternal]: such a table
    cannot agree with the hand-written functions. *)
From RP2V Require Import Base.Prelude Base.Time Base.Dec Model.Types Model.Generated Model.Txn Model.Parser.
Open Scope Z_scope.

Definition skey_code (k : skey) : Z :=
  match k with
  | K_configuration => 0 | K_timestamp => 1 | K_asset => 2 | K_exchange => 3 | K_holder => 4 | K_transaction_type => 5
  | K_spot_price => 6 | K_crypto_in => 7 | K_crypto_fee => 8 | K_fiat_in_no_fee => 9 | K_fiat_in_with_fee => 10
  | K_fiat_fee => 11 | K_row => 12 | K_unique_id => 13 | K_notes => 14 | K_from_lot => 15 | K_crypto_out_no_fee => 16
  | K_crypto_out_with_fee => 17 | K_fiat_out_no_fee => 18
  end.

(** the value passed for parameter [k]; [None] = the keyword is absent (the parameter takes its default) *)
Fixpoint arg_of (k : skey) (m : list (skey * ssrc)) : option ssrc :=
  match m with
  | [] => None
  | (k', s) :: t => if skey_code k =? skey_code k' then Some s else arg_of k t
  end.

Definition obind {A B} (o : option A) (f : A -> option B) : option B := match o with Some x => f x | None => None end.
Notation "'olet' x <- a ; b" := (obind a (fun x => b)) (at level 200, x name, a at level 100, b at level 200).

(** * typed evaluation of a value source on the transaction [a] built from the row *)
Section Eval.
Variable a : intx.        (* `transaction`: the InTransaction constructed from the row *)
Variable art : Z.         (* what configuration.get_new_artificial_id() returns when called *)

(** crypto amounts and the spot price: RP2Decimal values on the 1e-11 grid *)
Definition ev_grid (s : ssrc) : option Z :=
  match s with
  | SAttr A_spot_price => Some (i_spot a)
  | SAttr A_crypto_in => Some (i_crypto_in a)
  | SAttr A_crypto_fee => Some (i_crypto_fee a)
  | SZero => Some 0
  | _ => None
  end.
(** fiat amounts: the (unrounded) decimals derived by the first construction, or a grid value *)
Definition ev_dec (s : ssrc) : option dec :=
  match s with
  | SAttr A_fiat_in_no_fee => Some (i_fiat_in_no_fee a)
  | SAttr A_fiat_in_with_fee => Some (i_fiat_in_with_fee a)
  | SAttr A_fiat_fee => Some (i_fiat_fee a)
  | _ => option_map g (ev_grid s)
  end.
Definition ev_exch (s : ssrc) : option Z := match s with SAttr A_exchange => Some (i_exch a) | _ => None end.
Definition ev_holder (s : ssrc) : option Z := match s with SAttr A_holder => Some (i_holder a) | _ => None end.
(** str(datetime) keeps the microseconds and the offset, so parsing it back gives the same instant;
    a strftime format without %f drops the sub-second part *)
Definition ts_no_subsec (t : tstamp) : tstamp := {| utc_us := utc_us t - utc_us t mod 1000000; off_s := off_s t |}.
Definition ev_ts (s : ssrc) : option tstamp :=
  match s with STsStr => Some (i_ts a) | STsNoSubsec => Some (ts_no_subsec (i_ts a)) | _ => None end.
Definition ev_type (s : ssrc) : option ttype :=
  match s with STypeValue => Some (i_type a) | SConstType t => Some t | _ => None end.
(** internal_id is the sheet row number, which is the row of [a] *)
Definition ev_row (s : ssrc) : option Z :=
  match s with SInternalId => Some (i_row a) | SNewArtificialId => Some art | _ => None end.

Definition req {A} (ev : ssrc -> option A) (k : skey) (m : list (skey * ssrc)) : option A :=
  match arg_of k m with Some s => ev s | None => None end.
(** parameter with default None *)
Definition opt {A} (ev : ssrc -> option A) (k : skey) (m : list (skey * ssrc)) : option (option A) :=
  match arg_of k m with
  | None | Some SNone => Some None
  | Some s => option_map Some (ev s)
  end.

(** parameters the model abstracts (configuration object, asset name, unique id, notes): the agreement is about the
    table itself -- they must be the row's own values *)
Definition unmodelled_ok (m : list (skey * ssrc)) : bool :=
  match arg_of K_configuration m, arg_of K_asset m, arg_of K_unique_id m, arg_of K_notes m, arg_of K_from_lot m with
  | Some SConfiguration, Some (SAttr A_asset), Some (SAttr A_unique_id), Some SNotes, None => true
  | _, _, _, _, _ => false
  end.

(** ** the artificial OutTransaction: the arguments are grid values, so the constructor model [mk_out] applies *)
Definition fee_raw_gen (m : list (skey * ssrc)) : option raw_out :=
  if negb (unmodelled_ok m) then None else
  olet row <- req ev_row K_row m;
  olet ts <- req ev_ts K_timestamp m;
  olet ex <- req ev_exch K_exchange m;
  olet ho <- req ev_holder K_holder m;
  olet ty <- req ev_type K_transaction_type m;
  olet spot <- req ev_grid K_spot_price m;
  olet nofee <- req ev_grid K_crypto_out_no_fee m;
  olet fee <- req ev_grid K_crypto_fee m;
  olet w <- opt ev_grid K_crypto_out_with_fee m;
  olet f1 <- opt ev_grid K_fiat_out_no_fee m;
  olet f2 <- opt ev_grid K_fiat_fee m;
  Some {| ro_row := row; ro_ts := ts; ro_exch := ex; ro_holder := ho; ro_type := ty; ro_spot := spot;
          ro_crypto_out_no_fee := nofee; ro_crypto_fee := fee; ro_crypto_out_with_fee := w; ro_fiat_out_no_fee := f1;
          ro_fiat_fee := f2 |}.

(** ** the re-created InTransaction: its fiat arguments are decimals off the grid *)
Record in_args := {
  ia_row : Z; ia_ts : tstamp; ia_exch : Z; ia_holder : Z; ia_type : ttype; ia_spot : Z; ia_crypto_in : Z;
  ia_crypto_fee : option Z; ia_no_fee : option dec; ia_with_fee : option dec; ia_fiat_fee : option dec }.

Definition in_args_gen (m : list (skey * ssrc)) : option in_args :=
  if negb (unmodelled_ok m) then None else
  olet row <- req ev_row K_row m;
  olet ts <- req ev_ts K_timestamp m;
  olet ex <- req ev_exch K_exchange m;
  olet ho <- req ev_holder K_holder m;
  olet ty <- req ev_type K_transaction_type m;
  olet spot <- req ev_grid K_spot_price m;
  olet cin <- req ev_grid K_crypto_in m;
  olet cfee <- opt ev_grid K_crypto_fee m;
  olet f1 <- opt ev_dec K_fiat_in_no_fee m;
  olet f2 <- opt ev_dec K_fiat_in_with_fee m;
  olet f3 <- opt ev_dec K_fiat_fee m;
  Some {| ia_row := row; ia_ts := ts; ia_exch := ex; ia_holder := ho; ia_type := ty; ia_spot := spot; ia_crypto_in := cin;
          ia_crypto_fee := cfee; ia_no_fee := f1; ia_with_fee := f2; ia_fiat_fee := f3 |}.
End Eval.

(** InTransaction.__init__ on arguments derived from an already constructed in-transaction (type, spot price and
    crypto_in passed the checks of the first construction): type_check_positive_decimal(non_zero=True) on fiat_in_no_fee
    and fiat_in_with_fee when given, >= 0 on fiat_fee when truthy; an absent fiat argument is derived as in [mk_in].
    Passing a crypto fee again is outside the model. *)
Definition remake_in (p : in_args) : result intx :=
  match ia_crypto_fee p with
  | Some _ => Err EInternal
  | None =>
    let nf := match ia_no_fee p with Some v => v | None => dmul (g (ia_crypto_in p)) (g (ia_spot p)) end in
    if match ia_no_fee p with Some v => dltb v dzero || deqb v dzero | None => false end then Err EValue else
    let ff_in := match ia_fiat_fee p with Some v => v | None => dzero end in
    let ff := if fst ff_in =? 0 then dzero else ff_in in
    let wf := match ia_with_fee p with Some v => v | None => dadd nf ff end in
    if match ia_with_fee p with Some v => dltb v dzero || deqb v dzero | None => false end then Err EValue else
    if dltb ff_in dzero then Err EValue else
    Ok {| i_row := ia_row p; i_ts := ia_ts p; i_exch := ia_exch p; i_holder := ia_holder p; i_type := ia_type p;
          i_spot := ia_spot p; i_crypto_in := ia_crypto_in p; i_crypto_fee := 0;
          i_fiat_in_no_fee := nf; i_fiat_in_with_fee := wf; i_fiat_fee := ff |}
  end.

Definition split_in_gen (a : intx) : result intx :=
  match in_args_gen a 0 gen_split_in_args with
  | Some p => remake_in p
  | None => Err EInternal
  end.

Definition fee_out_gen (a : intx) (artificial_row : Z) : result outtx :=
  match fee_raw_gen a artificial_row gen_split_fee_args with
  | Some r => mk_out r
  | None => Err EInternal
  end.

(** does the table draw a new artificial id (the configuration's counter then moves) *)
Definition draws_id (m : list (skey * ssrc)) : bool :=
  existsb (fun ks => match snd ks with SNewArtificialId => true | _ => false end) m.

(** * the guard *)
Definition is_class (c : sclass) (tx : txn) : bool :=
  match c, tx with
  | CIn, TIn _ | COut, TOut _ | CIntra, TIntra _ => true
  | _, _ => false
  end.
Definition ev_pred (p : spred) (tx : txn) : bool :=
  match p with
  | PFeeDefined => match tx with TIn a => gen_in_is_crypto_fee_defined a | _ => false end   (* InTransaction only *)
  | PIsTaxable => t_is_taxable tx
  | PIsEarning => t_is_earning tx
  end.
Fixpoint ev_guard (e : sguard) (tx : txn) : bool :=
  match e with
  | GIs c => is_class c tx
  | GPred p => ev_pred p tx
  | GAnd x y => ev_guard x tx && ev_guard y tx
  | GOr x y => ev_guard x tx || ev_guard y tx
  | GNot x => negb (ev_guard x tx)
  end.

(** * containers: TransactionSet.add_entry of the set of a table type (only a transaction of that class is accepted),
    or the artificial list (flushed into the sets by class at the end of parse_ods; only out-transactions modelled) *)
Definition put (d : sdest) (cur : table) (tx : txn) (s : pstate) : option pstate :=
  let tab := match d with
             | DSet DIn => Some TabIn | DSet DOut => Some TabOut | DSet DIntra => Some TabIntra | DSet DCurrent => Some cur
             | DArtificial => None
             end in
  match tab, tx with
  | Some TabIn, TIn x => Some (upd_state s (ps_ins s ++ [x]) (ps_outs s) (ps_intras s) (ps_art s) (ps_counter s) (ps_meta s))
  | Some TabOut, TOut x => Some (upd_state s (ps_ins s) (ps_outs s ++ [x]) (ps_intras s) (ps_art s) (ps_counter s) (ps_meta s))
  | Some TabIntra, TIntra x => Some (upd_state s (ps_ins s) (ps_outs s) (ps_intras s ++ [x]) (ps_art s) (ps_counter s) (ps_meta s))
  | None, TOut x => Some (upd_state s (ps_ins s) (ps_outs s) (ps_intras s) (ps_art s ++ [x]) (ps_counter s) (ps_meta s))
  | _, _ => None
  end.

(** _create_and_process_transaction after `transaction = _create_transaction(...)`; [uid], [notes] are the row's
    unique_id / notes arguments (kept per row id for the reports), [rowno] = internal_id *)
Definition process_gen (s : pstate) (cur : table) (tx : txn) (uid notes : arg) (rowno : Z) : result pstate :=
  let m := (rowno, uid, notes) in
  if ev_guard gen_split_guard tx then
    match tx with
    | TIn a =>
      do a' <- split_in_gen a;
      let id := ps_counter s - 1 in
      do o <- fee_out_gen a id;
      match put gen_split_in_dest cur (TIn a') s with
      | None => Err EInternal
      | Some s1 =>
        match put gen_split_fee_dest cur (TOut o) s1 with
        | None => Err EInternal
        | Some s2 =>
          Ok (upd_state s2 (ps_ins s2) (ps_outs s2) (ps_intras s2) (ps_art s2)
                        (if draws_id gen_split_fee_args then id else ps_counter s)
                        (ps_meta s ++ [m; (o_row o, uid, ANone)]))
        end
      end
    | _ => Err EInternal          (* the split reads in-transaction attributes *)
    end
  else
    match put gen_split_else_dest cur tx s with
    | None => Err EInternal
    | Some s1 => Ok (upd_state s1 (ps_ins s1) (ps_outs s1) (ps_intras s1) (ps_art s1) (ps_counter s1) (ps_meta s ++ [m]))
    end.

(** [Parser.data_row] with the processing step taken from the table *)
Definition data_row_gen (cfg : pcfg) (asset : str) (s : pstate) (t : table) (rowno : Z) (row : list cell) : result pstate :=
  match t with
  | TabIn =>
    let h := pc_in cfg in
    do r <- create_in cfg rowno row;
    do a <- mk_in r;
    if negb (asset_is cfg h row asset) then Err EValue else
    process_gen s t (TIn a) (get_arg h row 11) (get_arg h row 12) rowno
  | TabOut =>
    let h := pc_out cfg in
    do r <- create_out cfg rowno row;
    do a <- mk_out r;
    if negb (asset_is cfg h row asset) then Err EValue else
    process_gen s t (TOut a) (get_arg h row 11) (get_arg h row 12) rowno
  | TabIntra =>
    let h := pc_intra cfg in
    do r <- create_intra cfg rowno row;
    do a <- mk_intra r;
    if negb (asset_is cfg h row asset) then Err EValue else
    process_gen s t (TIntra a) (get_arg h row 9) (get_arg h row 10) rowno
  end.
