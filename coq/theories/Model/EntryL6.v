(** Entry points of the L6 model for the extracted driver (commands 90-99). *)
From RP2V Require Import Base.Prelude Base.Sorting Model.Types.
From RP2V Require Import Model.Generated Model.Codec Model.MainRun.
From RP2V Require Import Model.Imports.
Open Scope Z_scope.

Definition country_of_code (c : Z) : country :=
  if c =? 0 then US else if c =? 1 then ES else if c =? 2 then JP else if c =? 3 then IE else GENERIC.

Definition rd_optstr : rd (option str) := fun s =>
  match s with
  | f :: t => match rd_str t with Some (x, t') => Some (if f =? 1 then Some x else None, t') | None => None end
  | [] => None
  end.
Definition rd_flag : rd bool := fun s => match s with x :: t => Some (x =? 1, t) | [] => None end.
Definition rd_sched : rd (Z * str) := fun s =>
  match s with y :: t => match rd_str t with Some (m, t') => Some ((y, m), t') | None => None end | [] => None end.
Definition rd_tt : rd ttype := rd_ttype.
Definition rd_facts : rd asset_facts := fun s =>
  match rd_str s with None => None | Some (name, s1) =>
  match s1 with present :: neg :: s2 =>
    match rd_list rd_tt s2 with None => None | Some (types, s3) =>
    match s3 with hidden :: holders :: s4 =>
      Some ({| af_name := name; af_present := present =? 1; af_negative := neg =? 1; af_event_types := types;
               af_hidden_year := hidden =? 1; af_holders := holders |}, s4)
    | _ => None end end
  | _ => None end end.

Record run_input := { ri_country : country; ri_opts : options; ri_cfg : config; ri_inp : list asset_facts; ri_rest : list Z }.

Definition rd_run_input (a : list Z) : option run_input :=
  match a with [] => None | c :: s0 =>
  match rd_optstr s0 with None => None | Some (meth, s1) =>
  match rd_optstr s1 with None => None | Some (lang, s2) =>
  match s2 with frm :: to :: s3 =>
    match rd_optstr s3 with None => None | Some (asset, s4) =>
    match s4 with [] => None | neg :: s5 =>
    match rd_str s5 with None => None | Some (prefix, s6) =>
    match s6 with [] => None | plugin :: s7 =>
    match rd_list rd_str s7 with None => None | Some (assets, s8) =>
    match rd_list rd_sched s8 with None => None | Some (sched, s9) =>
    match rd_list rd_facts s9 with None => None | Some (facts, s10) =>
      Some {| ri_country := country_of_code c;
              ri_opts := {| o_method := meth; o_lang := lang; o_from := frm; o_to := to; o_asset := asset; o_neg := neg =? 1;
                            o_prefix := prefix; o_plugin := plugin =? 1 |};
              ri_cfg := {| cf_assets := assets; cf_sched := sched |}; ri_inp := facts; ri_rest := s10 |}
    end end end end end end end
  | _ => None end end end end.

Definition enc_str (s : str) : list Z := Z.of_nat (length s) :: s.

(** cmd 90 -- one run: -> exit code, files written (names) *)
Definition entry_run (a : list Z) : list Z :=
  match rd_run_input a with
  | None => [-1]
  | Some r => let res := run (ri_country r) (ri_opts r) (ri_cfg r) (ri_inp r) in
              fst res :: enc_list enc_str (snd res)
  end.

(** cmd 91 -- write set of a run (rendered paths); trailing arguments: stamp, output directory *)
Definition entry_write_set (a : list Z) : list Z :=
  match rd_run_input a with
  | None => [-1]
  | Some r => match rd_str (ri_rest r) with None => [-1] | Some (stamp, s1) =>
              match rd_str s1 with None => [-1] | Some (outdir, _) =>
                enc_list enc_str (map render (write_set (ri_country r) (ri_opts r) (ri_cfg r) stamp outdir))
              end end
  end.

(** cmd 92 -- verdicts of the static checks over the regenerated tables *)
Definition entry_static (_ : list Z) : list Z :=
  map enc_bool [imports_ok; dynamic_imports_confined; no_exec_process_network; write_sites_modelled; write_sites_unique;
                scripts_cover_countries].

(** cmd 93 -- per country: accepted -m choices, shipped languages, generators in discovery order *)
Definition entry_matrix (a : list Z) : list Z :=
  match a with
  | c :: _ => let c := country_of_code c in
              enc_list enc_str (accepted_method_names c) ++
              enc_list enc_str (filter (shipped c) locale_inventory) ++
              enc_list (fun g => [gen_code g]) (discovery c) ++
              enc_str (country_default_language c) ++ enc_str (meth_name (country_default_method c))
  | [] => [-1]
  end.

(** cmd 94 -- per-item verdicts of the static checks (for locating the offending entry) *)
Definition entry_static_detail (_ : list Z) : list Z :=
  enc_list (fun e => enc_str (fst e) ++ [enc_bool (module_imports_ok e)]) import_table ++
  enc_list (fun s => [enc_bool (dynamic_import_ok s); enc_bool (no_exec_site s); enc_bool (write_site_ok s)]) call_sites.

(** cmd 95 -- the run with the modelled report generators plugged in (Model/RunCompose.v):
    [op_lang; jp_lang; rinput (ReportInput.rd_rinput); fenv (EntryFull.rd_fenv)]
    -> 0 :: n :: n x (generator code, 1, number of sheets | 0, failure code: 11 KeyError, 12 IndexError, else err code),
       in discovery order of the rinput's country, every generator evaluated (the harness cuts at the first failure);
       then the derived asset facts: m :: m x (present, negative, |types|, types..., hidden year, holders) *)
From RP2V Require Import Model.ReportInput Model.FullReport Model.EntryFull Model.RunCompose.

Definition gfail_code (f : gfail) : Z :=
  match f with GFKeyError => 11 | GFIndexError => 12 | GFErr e => err_code e end.

Definition entry_run_reports (a : list Z) : list Z :=
  match a with
  | ol :: jl :: s =>
    match rd_rinput s with
    | None => [-1]
    | Some (Err e, _) => [err_code e]
    | Some (Ok i, s1) =>
      match rd_fenv s1 with
      | None => [-1]
      | Some (env, _) =>
        let v := {| rv_op_lang := ol; rv_jp_lang := jl; rv_fenv := env |} in
        0 :: enc_list (fun g => gen_code g :: match run_gen v i g with
                                              | inl sh => [1; Z.of_nat (length sh)]
                                              | inr f => [0; gfail_code f]
                                              end) (discovery (rp_country i))
          ++ enc_list (fun f => [enc_bool (af_present f); enc_bool (af_negative f)] ++ enc_list (fun t => [ttype_code t]) (af_event_types f)
                                ++ [enc_bool (af_hidden_year f); af_holders f]) (inp_of_rinput i)
      end
    end
  | _ => [-1]
  end.
