(** Entry points 60-69 of the executable model: the US / IE tax report (Model/TaxReport.v).
    60: tax_report_us, 61: tax_report_ie on an encoded [rinput] (Model/ReportInput.v: rd_rinput)
        -> 0 :: enc_report sheets | [error code]
    62: the generated maps: [country] -> for each of the 14 types (declaration order) the length-prefixed
        name of the sheet it is routed to (length -1 = no sheet)
    63: text helpers: [0; u] -> fmt8 u;  [1; fmt; utc_us; off_s] -> formatted date *)
From RP2V Require Import Base.Prelude Base.Time Base.Dec Model.Types Model.Generated Model.Codec Model.Grid Model.ReportInput
  Model.TaxReport.
Open Scope Z_scope.

Definition entry_tax_report (T : trtables) (a : list Z) : list Z :=
  match rd_rinput a with
  | None => [-1]
  | Some (Err e, _) => [err_code e]
  | Some (Ok i, _) =>
    match tax_report T i with
    | Ok ss => 0 :: enc_report ss
    | Err e => [err_code e]
    end
  end.

Definition entry_tax_maps (a : list Z) : list Z :=
  match a with
  | [c] =>
    let T := tables_of (country_of_code' c) in
    flat_map (fun ty => match type_to_sheet T ty with Some n => enc_str n | None => [-1] end) all_ttypes
  | _ => [-1]
  end.

Definition entry_tax_text (a : list Z) : list Z :=
  match a with
  | [0; u] => enc_str (fmt8 u)
  | [1; f; u; o] => enc_str (fmt_date (if f =? 0 then DF_mdy else DF_ymd) {| utc_us := u; off_s := o |})
  | _ => [-1]
  end.
