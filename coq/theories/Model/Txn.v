(** Transaction constructors (InTransaction / OutTransaction / IntraTransaction.__init__)
    on raw rows: validation and derivation of the optional fiat fields.  Raw numeric
    inputs are on the 1e-11 grid (what the ODS parser produces). *)
From RP2V Require Import Base.Prelude Base.Time Base.Dec Model.Types Model.Generated.
Open Scope Z_scope.

Record raw_in := {
  ri_row : Z; ri_ts : tstamp; ri_exch : Z; ri_holder : Z; ri_type : ttype; ri_spot : Z; ri_crypto_in : Z;
  ri_crypto_fee : option Z; ri_fiat_in_no_fee : option Z; ri_fiat_in_with_fee : option Z; ri_fiat_fee : option Z }.
Record raw_out := {
  ro_row : Z; ro_ts : tstamp; ro_exch : Z; ro_holder : Z; ro_type : ttype; ro_spot : Z;
  ro_crypto_out_no_fee : Z; ro_crypto_fee : Z;
  ro_crypto_out_with_fee : option Z; ro_fiat_out_no_fee : option Z; ro_fiat_fee : option Z }.
Record raw_intra := {
  rx_row : Z; rx_ts : tstamp; rx_from_exch : Z; rx_from_holder : Z; rx_to_exch : Z; rx_to_holder : Z;
  rx_spot : option Z; rx_crypto_sent : Z; rx_crypto_received : Z }.

Definition g (u : Z) : dec := of_grid u.
(** truthiness of an optional RP2Decimal: present and non-zero *)
Definition truthy (o : option Z) : bool := match o with Some v => negb (v =? 0) | None => false end.

Definition mk_in (r : raw_in) : result intx :=
  let spot := ri_spot r in
  if spot <? 0 then Err EValue else
  let cin := ri_crypto_in r in
  if negb (ttype_eqb (ri_type r) STAKING) && (cin <=? 0) then Err EValue else
  let cfee := if truthy (ri_crypto_fee r) then match ri_crypto_fee r with Some v => v | None => 0 end else 0 in
  if cfee <? 0 then Err EValue else
  let ffee0 := if truthy (ri_fiat_fee r) then match ri_fiat_fee r with Some v => v | None => 0 end else 0 in
  if ffee0 <? 0 then Err EValue else
  if spot =? 0 then Err EValue else
  match ri_crypto_fee r, ri_fiat_fee r with
  | Some _, Some _ => Err EValue
  | _, _ =>
    let ffee : dec := match ri_crypto_fee r, ri_fiat_fee r with
                      | Some _, None => dmul (g cfee) (g spot)
                      | _, _ => g ffee0
                      end in
    let no_fee_r : result dec :=
      match ri_fiat_in_no_fee r with
      | None => Ok (dmul (g cin) (g spot))
      | Some v => if v <=? 0 then Err EValue else Ok (g v)
      end in
    match no_fee_r with
    | Err e => Err e
    | Ok no_fee =>
      let with_fee_r : result dec :=
        match ri_fiat_in_with_fee r with
        | None => Ok (dadd no_fee ffee)
        | Some v => if v <=? 0 then Err EValue else Ok (g v)
        end in
      match with_fee_r with
      | Err e => Err e
      | Ok with_fee =>
        if negb (in_type_allowed (ri_type r)) then Err EValue else
        Ok {| i_row := ri_row r; i_ts := ri_ts r; i_exch := ri_exch r; i_holder := ri_holder r; i_type := ri_type r;
              i_spot := spot; i_crypto_in := cin; i_crypto_fee := cfee;
              i_fiat_in_no_fee := no_fee; i_fiat_in_with_fee := with_fee; i_fiat_fee := ffee |}
      end
    end
  end.

Definition mk_out (r : raw_out) : result outtx :=
  let spot := ro_spot r in
  if spot <? 0 then Err EValue else
  let nofee := ro_crypto_out_no_fee r in
  let fee := ro_crypto_fee r in
  let bad :=
    if ttype_eqb (ro_type r) FEE
    then (nofee <? 0) || negb (nofee =? 0) || (fee <=? 0)
    else (spot =? 0) || (nofee <=? 0) || (fee <? 0) in
  if bad then Err EValue else
  let with_fee_r : result Z :=
    match ro_crypto_out_with_fee r with
    | None => Ok (nofee + fee)
    | Some v => if v <=? 0 then Err EValue else Ok v
    end in
  match with_fee_r with
  | Err e => Err e
  | Ok with_fee =>
    let f_nofee_r : result dec :=
      match ro_fiat_out_no_fee r with
      | None => Ok (dmul (g nofee) (g spot))
      | Some v => if v <=? 0 then Err EValue else Ok (g v)
      end in
    match f_nofee_r with
    | Err e => Err e
    | Ok f_nofee =>
      let f_fee_r : result dec :=
        match ro_fiat_fee r with
        | None => Ok (dmul (g fee) (g spot))
        | Some v => if v <? 0 then Err EValue else Ok (g v)
        end in
      match f_fee_r with
      | Err e => Err e
      | Ok f_fee =>
        if negb (out_type_allowed (ro_type r)) then Err EValue else
        Ok {| o_row := ro_row r; o_ts := ro_ts r; o_exch := ro_exch r; o_holder := ro_holder r; o_type := ro_type r;
              o_spot := spot; o_crypto_out_no_fee := nofee; o_crypto_fee := fee; o_crypto_out_with_fee := with_fee;
              o_fiat_out_no_fee := f_nofee; o_fiat_fee := f_fee; o_fiat_out_with_fee := dadd f_nofee f_fee |}
      end
    end
  end.

Definition mk_intra (r : raw_intra) : result intratx :=
  let sent := rx_crypto_sent r in
  let recv := rx_crypto_received r in
  if sent <=? 0 then Err EValue else
  if recv <? 0 then Err EValue else
  let fee := sent - recv in
  let spot_r : result Z :=
    match rx_spot r with
    | Some v => if v =? 0 then (if fee =? 0 then Ok 0 else Err EValue) else Ok v
    | None => if fee =? 0 then Ok 0 else Err EValue
    end in
  match spot_r with
  | Err e => Err e
  | Ok spot =>
    if spot <? 0 then Err EValue else
    if sent <? recv then Err EValue else
    Ok {| x_row := rx_row r; x_ts := rx_ts r; x_from_exch := rx_from_exch r; x_from_holder := rx_from_holder r;
          x_to_exch := rx_to_exch r; x_to_holder := rx_to_holder r; x_spot := spot;
          x_crypto_sent := sent; x_crypto_received := recv; x_crypto_fee := fee;
          x_fiat_fee := dmul (g fee) (g spot) |}
  end.

Fixpoint map_result {A B} (f : A -> result B) (l : list A) : result (list B) :=
  match l with
  | [] => Ok []
  | x :: t => match f x with
              | Err e => Err e
              | Ok y => match map_result f t with Err e => Err e | Ok ys => Ok (y :: ys) end
              end
  end.
