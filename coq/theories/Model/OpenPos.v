(** The open-positions report (plugin/report/open_positions.py, Generator.generate) as the sequence of
    cell writes it performs on the sheets 'Asset', 'Asset - Exchange' and 'Input'.

    First pass, per asset in the order of the asset -> ComputedData map: every lot of the (date
    filtered) in-transaction set contributes  fiat_in_with_fee x (1 - sold %)  when that is > 0
    (13-decimal comparison) to the asset's cost basis and to the grand total; every account with a
    final balance > 0 contributes to the per-holder balance and is recorded per (holder, exchange).
    Second pass, per asset that received a cost basis: per-unit cost = cost / sum of the holder
    balances, one row per holder, one row per (holder, exchange), weights = row cost / grand total.
    A dictionary lookup that fails (KeyError) is [Err EInternal], a division by zero or a decimal
    InvalidOperation is [Err EValue].

    The arithmetic expressions, the column tables of every row writer, HEADER_ROWS, the sheet names
    per language and the template sizes come from Generated.v (fragment open_positions).
    Not modelled: cell styles, the Legend sheet. *)
From RP2V Require Import Base.Prelude Base.Time Base.Dec Base.Sorting Base.Assoc Model.Types Model.Generated Model.Txn
  Model.Pipeline Model.Computed Model.Grid Model.ReportInput.
Open Scope Z_scope.

Definition country_code (c : country) : Z :=
  match c with US => 0 | ES => 1 | JP => 2 | IE => 3 | GENERIC => 4 end.

(** RP2Decimal comparison raises decimal.InvalidOperation when the difference needs more than 31
    digits at 13 decimals *)
Definition cmp_ok (a b : dec) : bool := match cmp13 a b with Some _ => true | None => false end.

(** ---------- first pass *)
Record fpass := {
  fp_total : dec;                          (* total_cost_basis *)
  fp_costs : assoc dec;                    (* asset_cost_bases: asset index -> cost basis, insertion order *)
  fp_holders : list Z;                     (* holders (indices into rp_holders), first-seen order *)
  fp_hbal : assoc (assoc Z);               (* asset_crypto_balance_holder: asset -> holder -> balance *)
  fp_hebal : assoc (assoc (assoc Z)) }.    (* asset_crypto_balance_holder_exchange: asset -> holder -> exchange -> balance *)

Definition fp_init : fpass := {| fp_total := dzero; fp_costs := []; fp_holders := []; fp_hbal := []; fp_hebal := [] |}.

Definition sold_pct_of (c : computed) (l : intx) : dec := aget_d dzero (i_row l) (cd_sold_pct c).
Definition lot_unrealised (c : computed) (l : intx) : dec := gen_op_lot_cost l (sold_pct_of c l).

Definition lot_step (c : computed) (a : Z) (st : result fpass) (l : intx) : result fpass :=
  match st with
  | Err e => Err e
  | Ok s =>
    let tcb := lot_unrealised c l in
    if negb (cmp_ok tcb dzero) then Err EValue else
    if gen_op_lot_counts tcb then
      Ok {| fp_total := dadd (fp_total s) tcb;
            fp_costs := aset a (dadd (aget_d dzero a (fp_costs s)) tcb) (fp_costs s);
            fp_holders := fp_holders s; fp_hbal := fp_hbal s; fp_hebal := fp_hebal s |}
    else Ok s
  end.

Definition bal_row (a : Z) (s : fpass) (b : balance) : fpass :=
  if gen_op_balance_counts (b_final b) then
    let ho := b_holder b in
    let ex := b_exch b in
    let hb := aget_d [] a (fp_hbal s) in
    let heb := aget_d [] a (fp_hebal s) in
    let he := aget_d [] ho heb in
    {| fp_total := fp_total s; fp_costs := fp_costs s;
       fp_holders := if existsb (Z.eqb ho) (fp_holders s) then fp_holders s else fp_holders s ++ [ho];
       fp_hbal := aset a (aset ho (aget_d 0 ho hb + b_final b) hb) (fp_hbal s);
       fp_hebal := aset a (aset ho (if amem ex he then he else aset ex (b_final b) he) heb) (fp_hebal s) |}
  else s.

Definition asset_step (st : result fpass) (ac : Z * computed) : result fpass :=
  let '(a, c) := ac in
  match fold_left (lot_step c a) (cd_ins c) st with
  | Err e => Err e
  | Ok s => Ok (fold_left (bal_row a) (cd_balances c) s)
  end.

Fixpoint number_from {A} (k : Z) (l : list A) : list (Z * A) :=
  match l with [] => [] | x :: t => (k, x) :: number_from (k + 1) t end.

Definition first_pass (cs : list computed) : result fpass :=
  fold_left asset_step (number_from 0 cs) (Ok fp_init).

(** ---------- rendering of one row from its column table *)
Record rowenv := {
  re_row : Z; re_end : Z; re_asset : str; re_holder : str; re_exch : str;
  re_bal : Z; re_unit : dec; re_cost : dec; re_weight : dec; re_input : str }.

Definition render_part (e : rowenv) (p : op_part) : str :=
  match p with
  | OPLit s => s
  | OPRow1 => str_of_Z (re_row e + 1)
  | OPHdr1 => str_of_Z (gen_op_header_rows + 1)
  | OPEnd => str_of_Z (re_end e)
  | OPHolder => re_holder e
  | OPInputName => re_input e
  end.

Definition render_val (e : rowenv) (v : op_val) : payload :=
  match v with
  | OVAsset => PStr (re_asset e)
  | OVHolder => PStr (re_holder e)
  | OVExchange => PStr (re_exch e)
  | OVBalance => PNum (of_grid (re_bal e))
  | OVUnit => PNum (re_unit e)
  | OVCost => PNum (re_cost e)
  | OVWeight => PNum (re_weight e)
  | OVStr s => PStr s
  | OVLabel => PLabel
  | OVEmpty => PEmpty
  | OVFormula ps => PFormula (flat_map (render_part e) ps)
  end.

Definition render_row (e : rowenv) (cells : list (Z * op_val)) : list cellw :=
  map (fun cv => cw (re_row e) (fst cv) (render_val e (snd cv))) cells.

Definition env0 (row end_ : Z) (input : str) : rowenv :=
  {| re_row := row; re_end := end_; re_asset := []; re_holder := []; re_exch := []; re_bal := 0;
     re_unit := dzero; re_cost := dzero; re_weight := dzero; re_input := input |}.

(** ---------- a sheet under construction: next row index (row_indexes[sheet]), number of
    append_rows(1) calls, writes so far *)
Record wsheet := { ws_next : Z; ws_appended : Z; ws_writes : list cellw }.
Definition ws_add (s : wsheet) (mk : Z -> list cellw) : wsheet :=
  {| ws_next := ws_next s + 1; ws_appended := ws_appended s + 1; ws_writes := ws_writes s ++ mk (ws_next s) |}.
Definition ws_write (s : wsheet) (ws : list cellw) : wsheet :=
  {| ws_next := ws_next s; ws_appended := ws_appended s; ws_writes := ws_writes s ++ ws |}.

Record wst := { w_asset : wsheet; w_exch : wsheet; w_input : wsheet }.

(** _fill_header(title, row1, row2, sheet, 0, 0) + the note cells *)
Fixpoint header_cells (k : Z) (h : list (bool * bool)) : list cellw :=
  match h with
  | [] => []
  | (a, b) :: t => cw 1 k (if a then PLabel else PEmpty) :: cw 2 k (if b then PLabel else PEmpty) :: header_cells (k + 1) t
  end.
Definition header_writes (h : list (bool * bool)) (notes : list (Z * Z)) : list cellw :=
  cw 0 0 PLabel :: cw 1 0 PEmpty :: cw 2 0 PEmpty :: header_cells 0 h ++ map (fun rc => cw (fst rc) (snd rc) PLabel) notes.

Definition ws_start (h : list (bool * bool)) (notes : list (Z * Z)) : wsheet :=
  {| ws_next := gen_op_header_rows; ws_appended := 0; ws_writes := header_writes h notes |}.

(** unit_data_style: only whether the comparisons are defined is observable (styles are not modelled) *)
Definition unit_style (u : dec) : result Z :=
  match dle gen_op_style4_min u with
  | None => Err EValue
  | Some true =>
    match dlt u gen_op_style2_min with None => Err EValue | Some true => Ok 4 | Some false => Ok 2 end
  | Some false =>
    match dlt u gen_op_style4_min with None => Err EValue | Some true => Ok 7 | Some false => Ok 2 end
  end.

Definition name_at (l : list str) (k : Z) : str := nth (Z.to_nat k) l [].

Definition with_row (e : rowenv) (r : Z) : rowenv :=
  {| re_row := r; re_end := re_end e; re_asset := re_asset e; re_holder := re_holder e; re_exch := re_exch e; re_bal := re_bal e;
     re_unit := re_unit e; re_cost := re_cost e; re_weight := re_weight e; re_input := re_input e |}.
Definition ws_add_row (w : wsheet) (e : rowenv) (tbl : list (Z * op_val)) : wsheet :=
  ws_add w (fun r => render_row (with_row e r) tbl).

Section Second.
Context (i : rinput) (input_name : str) (s : fpass).

(** the figures of one data row: row cost = balance x per-unit cost, weight = row cost / grand total *)
Definition data_env (aname : str) (unit : dec) (ho : Z) (exch : str) (bal : Z) : option rowenv :=
  let cost := gen_op_row_cost bal unit in
  match gen_op_weight cost (fp_total s) with
  | None => None
  | Some wt => Some {| re_row := 0; re_end := 0; re_asset := aname; re_holder := name_at (rp_holders i) ho; re_exch := exch;
                       re_bal := bal; re_unit := unit; re_cost := cost; re_weight := wt; re_input := input_name |}
  end.

Definition holder_row (aname : str) (unit : dec) (st : result wsheet) (hb : Z * Z) : result wsheet :=
  match st with
  | Err e => Err e
  | Ok w =>
    match data_env aname unit (fst hb) [] (snd hb) with
    | None => Err EValue
    | Some e => Ok (ws_add_row w e gen_op_row_asset)
    end
  end.

Definition exch_row (aname : str) (unit : dec) (ho : Z) (st : result wsheet) (eb : Z * Z) : result wsheet :=
  match st with
  | Err e => Err e
  | Ok w =>
    match data_env aname unit ho (name_at (rp_exchanges i) (fst eb)) (snd eb) with
    | None => Err EValue
    | Some e => Ok (ws_add_row w e gen_op_row_asset_exchange)
    end
  end.

Definition total_balance (hb : assoc Z) : Z := fold_left (fun acc kv => acc + snd kv) hb 0.

Definition asset_rows (st : result wst) (ac : Z * dec) : result wst :=
  let '(a, cost) := ac in
  match st with
  | Err e => Err e
  | Ok w =>
    match aget a (fp_hbal s) with
    | None => Err EInternal                       (* KeyError: asset_crypto_balance_holder[asset] *)
    | Some hb =>
      match gen_op_unit_cost cost (total_balance hb) with
      | None => Err EValue                        (* division by zero *)
      | Some unit =>
        match unit_style unit with
        | Err e => Err e
        | Ok _ =>
          let aname := ra_name (nth (Z.to_nat a) (rp_assets i) {| ra_name := []; ra_txs := {| t_ins := []; t_outs := []; t_intras := [] |}; ra_fracs := [] |}) in
          let w_in := ws_add_row (w_input w)
                         {| re_row := 0; re_end := 0; re_asset := aname; re_holder := []; re_exch := []; re_bal := 0; re_unit := dzero;
                            re_cost := dzero; re_weight := dzero; re_input := input_name |} gen_op_row_input in
          match fold_left (holder_row aname unit) hb (Ok (w_asset w)) with
          | Err e => Err e
          | Ok w_as =>
            match aget a (fp_hebal s) with
            | None => Err EInternal
            | Some heb =>
              match fold_left (fun acc hx => fold_left (exch_row aname unit (fst hx)) (snd hx) acc) heb (Ok (w_exch w)) with
              | Err e => Err e
              | Ok w_ex => Ok {| w_asset := w_as; w_exch := w_ex; w_input := w_in |}
              end
            end
          end
        end
      end
    end
  end.

(** the percentage columns: for row_idx in range(HEADER_ROWS, row_indexes[sheet]) *)
Definition data_rows (w : wsheet) : list Z :=
  map (fun k => gen_op_header_rows + Z.of_nat k) (seq 0 (Z.to_nat (ws_next w - gen_op_header_rows))).
Definition pct_writes (w : wsheet) (cells : list (Z * op_val)) : wsheet :=
  ws_write w (flat_map (fun r => render_row (env0 r (ws_next w) input_name) cells) (data_rows w)).

(** per-holder totals (only when more than one holder has a positive balance) and the grand total *)
Definition total_rows (w : wsheet) (tot grand : list (Z * op_val)) : wsheet :=
  let last := ws_next w in
  let w1 := if gen_op_totals_need_more_than <? Z.of_nat (length (fp_holders s))
            then fold_left (fun acc ho => ws_add_row acc
                   {| re_row := 0; re_end := last; re_asset := []; re_holder := name_at (rp_holders i) ho; re_exch := [];
                      re_bal := 0; re_unit := dzero; re_cost := dzero; re_weight := dzero; re_input := input_name |} tot)
                 (fp_holders s) w
            else w in
  ws_add_row w1 (env0 0 last input_name) grand.

Definition second_pass : result wst :=
  match fold_left asset_rows (fp_costs s)
          (Ok {| w_asset := ws_start gen_op_hdr_asset gen_op_notes_asset;
                 w_exch := ws_start gen_op_hdr_asset_exchange gen_op_notes_asset_exchange;
                 w_input := ws_start gen_op_hdr_input gen_op_notes_input |}) with
  | Err e => Err e
  | Ok w =>
    let wa := total_rows (pct_writes (w_asset w) gen_op_pct_asset) gen_op_total_asset gen_op_grand_asset in
    let we := total_rows (pct_writes (w_exch w) gen_op_pct_asset_exchange) gen_op_total_asset_exchange gen_op_grand_asset_exchange in
    Ok {| w_asset := wa; w_exch := we; w_input := w_input w |}
  end.
End Second.

Definition finish_sheet (name : str) (dims : Z * Z) (w : wsheet) : sheetw :=
  {| sw_name := name; sw_rows := fst dims + ws_appended w; sw_cols := snd dims; sw_writes := ws_writes w |}.

(** _initialize_output_file: with one entry the method is taken by value when the source has the F10 repair (flag read by
    the translator), otherwise looked up under MIN_DATE.year = 1970 (KeyError for any other key) *)
Definition method_lookup_ok (sched : list (Z * meth)) : bool :=
  match sched with [(y, _)] => gen_ods_single_method_by_value || (y =? 1970) | _ => true end.

(** optional repair of the KeyError (finding F8-openpos), recognised by the translator when present between the two passes:
      for asset in [a for a in asset_cost_bases if a not in asset_crypto_balance_holder]:
          total_cost_basis -= asset_cost_bases.pop(asset)
    assets whose lots keep an amount that no account holds are left out, and their cost leaves the grand total *)
Definition orphan (s : fpass) (ac : Z * dec) : bool := negb (amem (fst ac) (fp_hbal s)).
Definition drop_orphans (s : fpass) : fpass :=
  {| fp_total := fold_left (fun t ac => dsub t (snd ac)) (filter (orphan s) (fp_costs s)) (fp_total s);
     fp_costs := filter (fun ac => negb (orphan s ac)) (fp_costs s);
     fp_holders := fp_holders s; fp_hbal := fp_hbal s; fp_hebal := fp_hebal s |}.

Definition open_positions_gen (drop : bool) (lang : Z) (i : rinput) (cs : list computed) : result (list sheetw) :=
  match gen_op_names lang, gen_op_template (country_code (rp_country i)) lang with
  | Some (n_asset, n_exch, n_input), Some (d_asset, d_exch, d_input) =>
    if negb (method_lookup_ok (rp_sched i)) then Err EInternal else
    match first_pass cs with
    | Err e => Err e
    | Ok s =>
      match second_pass i n_input (if drop then drop_orphans s else s) with
      | Err e => Err e
      | Ok w => Ok [finish_sheet n_asset d_asset (w_asset w); finish_sheet n_exch d_exch (w_exch w);
                    finish_sheet n_input d_input (w_input w)]
      end
    end
  | _, _ => Err EInternal      (* no message catalogue / no template for this country and language *)
  end.

Definition open_positions_of (lang : Z) (i : rinput) (cs : list computed) : result (list sheetw) :=
  open_positions_gen gen_op_drop_orphans lang i cs.

Definition open_positions (lang : Z) (i : rinput) : result (list sheetw) :=
  match computed_all i (rp_assets i) with
  | Err e => Err e
  | Ok acs => open_positions_of lang i (map snd acs)
  end.
