(** Spreadsheet output as the report generators produce it: a report is a list of sheets, a sheet
    is a name plus the sequence of cell writes ([_fill_cell] calls) in the order they happen.
    A cell payload is structured, never a rendered string: numbers stay 31-digit decimals, links
    keep their target sheet / row.  Styles are not modelled.  The harness renders a payload the way
    [_fill_cell] + ezodf do (RP2Decimal -> float, datetime -> str(datetime), formula text) and
    compares it with the cell read back from the generated .ods file. *)
From RP2V Require Import Base.Prelude Base.Time Base.Dec Base.Assoc Model.Types.
Open Scope Z_scope.

Inductive payload :=
| PEmpty                                   (* "" / None / cell never written *)
| PNum (d : dec)                           (* RP2Decimal, written as float(d) *)
| PInt (z : Z)                             (* Python int, written as float(z) *)
| PStr (s : str)                           (* data string (asset, exchange, holder, type name, "k/n", "LONG") *)
| PTs (t : tstamp)                         (* datetime, written as str(datetime) *)
| PDay (d : Z)                             (* date (day number), written as YYYY-MM-DD *)
| PLink (sheet : str) (row : Z) (inner : payload)   (* =HYPERLINK("#sheet.aROW:zROW"; inner) *)
| PFormula (s : str)                       (* any other formula, literal text *)
| PLabel.                                  (* translated static text (header, title): only "non-empty" is compared *)

Record cellw := { cw_row : Z; cw_col : Z; cw_val : payload }.
Record sheetw := { sw_name : str; sw_rows : Z; sw_cols : Z; sw_writes : list cellw }.
(* sw_rows / sw_cols: capacity of the sheet after the generator's append_rows calls; a write
   outside it is what ezodf answers with IndexError *)

Definition cw (r c : Z) (v : payload) : cellw := {| cw_row := r; cw_col := c; cw_val := v |}.

Definition in_capacity (s : sheetw) (w : cellw) : bool :=
  (0 <=? cw_row w) && (cw_row w <? sw_rows s) && (0 <=? cw_col w) && (cw_col w <? sw_cols s).
Definition sheet_ok (s : sheetw) : bool := forallb (in_capacity s) (sw_writes s).

(** final content of a cell = the last write to it *)
Definition cell_key (r c : Z) : Z := r * 1024 + c.
Definition final_cells (ws : list cellw) : assoc payload :=
  fold_left (fun m w => aset (cell_key (cw_row w) (cw_col w)) (cw_val w) m) ws [].
Definition cell_at (ws : list cellw) (r c : Z) : payload := aget_d PEmpty (cell_key r c) (final_cells ws).

(** rows written more than once with different content would be "overwritten" rows *)
Definition rows_of (ws : list cellw) : list Z := map cw_row ws.

(** ---- encoding for the driver: flat integers *)
Definition enc_str (s : str) : list Z := Z.of_nat (length s) :: s.
Fixpoint enc_payload (p : payload) : list Z :=
  match p with
  | PEmpty => [0]
  | PNum d => [1; fst d; snd d]
  | PInt z => [2; z]
  | PStr s => 3 :: enc_str s
  | PTs t => [4; utc_us t; off_s t]
  | PDay d => [5; d]
  | PLink sh r inner => 6 :: enc_str sh ++ r :: enc_payload inner
  | PFormula s => 7 :: enc_str s
  | PLabel => [8]
  end.
Definition enc_cellw (w : cellw) : list Z := cw_row w :: cw_col w :: enc_payload (cw_val w).
Definition enc_sheetw (s : sheetw) : list Z :=
  enc_str (sw_name s) ++ sw_rows s :: sw_cols s :: Z.of_nat (length (sw_writes s)) :: flat_map enc_cellw (sw_writes s).
Definition enc_report (ss : list sheetw) : list Z := Z.of_nat (length ss) :: flat_map enc_sheetw ss.

(** decimal digits of a non-negative integer as code points (for "k/n" labels, sheet names with years) *)
Fixpoint digits_fuel (fuel : nat) (n : Z) (acc : str) : str :=
  match fuel with
  | O => acc
  | S f => let acc' := (48 + n mod 10) :: acc in if n / 10 =? 0 then acc' else digits_fuel f (n / 10) acc'
  end.
Definition str_of_Z (n : Z) : str :=
  if n <? 0 then 45 :: digits_fuel (S (Z.to_nat (Z.log2 (- n)))) (- n) []
  else digits_fuel (S (Z.to_nat (Z.log2 n))) n [].
