(** Command dispatcher of the executable model. *)
From RP2V Require Import Base.Prelude Model.Entry.
From RP2V Require Import Model.Generated Model.EntryTaxReport.
Open Scope Z_scope.

Definition entry (cmd : Z) (args : list Z) : list Z :=
  if cmd =? 1 then entry_is_long args else
  if cmd =? 2 then entry_time args else
  if cmd =? 3 then entry_dec args else
  if cmd =? 10 then entry_match args else
  if cmd =? 11 then entry_spec args else
  if cmd =? 12 then entry_match_repush args else
  if cmd =? 13 then entry_events args else
  if cmd =? 30 then entry_computed args else
  if cmd =? 40 then entry_parse args else
  if cmd =? 60 then entry_tax_report tax_tables_us args else
  if cmd =? 61 then entry_tax_report tax_tables_ie args else
  if cmd =? 62 then entry_tax_maps args else
  if cmd =? 63 then entry_tax_text args else
  [-999].
