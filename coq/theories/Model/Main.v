(** Command dispatcher of the executable model. *)
From RP2V Require Import Base.Prelude Model.Entry Model.EntryL1.
From RP2V Require Import Model.EntryJp.
From RP2V Require Import Model.EntryFull.
From RP2V Require Import Model.EntryL6.
From RP2V Require Import Model.EntryOpenPos.
From RP2V Require Import Model.Generated Model.EntryTaxReport.
From RP2V Require Import Model.EntryC05Env.
From RP2V Require Import Model.EntryOds.
Open Scope Z_scope.

Definition entry (cmd : Z) (args : list Z) : list Z :=
  if cmd =? 1 then entry_is_long args else
  if cmd =? 2 then entry_time args else
  if cmd =? 3 then entry_dec args else
  if cmd =? 4 then entry_c05_env args else
  if cmd =? 10 then entry_match args else
  if cmd =? 11 then entry_spec args else
  if cmd =? 12 then entry_match_repush args else
  if cmd =? 13 then entry_events args else
  if cmd =? 30 then entry_computed args else
  if cmd =? 31 then entry_ods args else
  if cmd =? 40 then entry_parse args else
  if cmd =? 80 then entry_jp args else
  if cmd =? 81 then entry_jp_repaired args else
  if cmd =? 82 then entry_jp_unrepaired args else
  if cmd =? 83 then entry_jp_flags args else
  if cmd =? 84 then entry_jp_full args else
  if cmd =? 41 then entry_parse_full args else
  if cmd =? 42 then entry_config args else
  if cmd =? 43 then entry_options args else
  if cmd =? 45 then entry_num11 args else
  if cmd =? 50 then entry_full args else
  if cmd =? 51 then entry_full_msgids args else
  if cmd =? 52 then entry_full_fixed args else
  if cmd =? 90 then entry_run args else
  if cmd =? 91 then entry_write_set args else
  if cmd =? 92 then entry_static args else
  if cmd =? 93 then entry_matrix args else
  if cmd =? 94 then entry_static_detail args else
  if cmd =? 95 then entry_run_reports args else
  if cmd =? 70 then entry_open_positions args else
  if cmd =? 71 then entry_open_positions_first args else
  if cmd =? 60 then entry_tax_report tax_tables_us args else
  if cmd =? 61 then entry_tax_report tax_tables_ie args else
  if cmd =? 62 then entry_tax_maps args else
  if cmd =? 63 then entry_tax_text args else
  [-999].
