(** L6 x L5 -- the run of a country entry point with the MODELLED report generators plugged in.

    [Model/MainRun.v] models the control flow of rp2_main and treats a generator as "succeeds unless a listed
    condition holds", the conditions being facts about the input that the harness supplies ([asset_facts]).
    Here the same loop (generators in discovery order, the first failure ends the run, the reports written
    before it stay) runs the executable model of each configured generator on ONE [rinput]:

      GOpenPositions -> Model/OpenPos.v   [open_positions]
      GFullReport    -> Model/FullReport.v [full_report code_flags]
      GTaxUS / GTaxIE-> Model/TaxReport.v [tax_report] with the regenerated US / IE tables
      GTaxJP         -> Model/JpReport.v  [jp_report] with the structural facts the translator reads

    and the input facts MainRun needs are COMPUTED from the rinput with the functions of the report models
    ([facts_of_asset], [inp_of_rinput]) instead of being supplied from outside.

    What a generator needs besides the rinput (translations / template sizes of the generation language) is
    the environment [renv]; the theorems quantify over it.  Definitions only (proofs: Proofs/RunCompose.v). *)
From RP2V Require Import Base.Prelude Base.Time Base.Dec Base.Sorting Base.Assoc Model.Types Model.Generated Model.Txn
  Model.Pipeline Model.Computed Model.Grid Model.ReportInput Model.FullReport Model.TaxReport Model.OpenPos Model.JpReport
  Model.MainRun.
Open Scope Z_scope.

(** what the generators read besides the rinput: the language code of the open-positions tables
    (Generated.gen_op_names: 0 en, 1 es, 2 kl, 3 en_IE, 4 ja), the language code of the JP tables (0 en, 1 kl),
    the translations and template sizes of the full report *)
Record renv := { rv_op_lang : Z; rv_jp_lang : Z; rv_fenv : fenv }.

(** why a generator did not produce its report *)
Inductive gfail := GFKeyError | GFIndexError | GFErr (e : err).
Definition gfail_err (f : gfail) : err := match f with GFErr e => e | _ => EInternal end.

Definition of_result {A} (r : result A) : A + gfail := match r with Ok a => inl a | Err e => inr (GFErr e) end.
Definition of_fres {A} (r : fres A) : A + gfail :=
  match r with ROk a => inl a | RKeyError => inr GFKeyError | RIndexError => inr GFIndexError | RErr e => inr (GFErr e) end.

(** the tables of the two tax-report plugins modelled by Model/TaxReport.v *)
Definition tax_tables_for (g : gen_id) : option trtables :=
  match g with GTaxUS => Some tax_tables_us | GTaxIE => Some tax_tables_ie | _ => None end.

(** one generator = its model, in the shape of the source as the translator reads it *)
Definition run_gen (v : renv) (i : rinput) (g : gen_id) : list sheetw + gfail :=
  match g with
  | GOpenPositions => of_result (open_positions (rv_op_lang v) i)
  | GFullReport => of_fres (full_report code_flags (rv_fenv v) i)
  | GTaxUS => of_result (tax_report tax_tables_us i)
  | GTaxIE => of_result (tax_report tax_tables_ie i)
  | GTaxJP => of_result (jp_report (rv_jp_lang v) gen_jp_intra_yen_guard_on_crypto gen_jp_years_sorted gen_jp_prev_existing_year i)
  end.

(** the loop of rp2_main over the discovered generators: reports written so far, and the first failure if any *)
Fixpoint run_gens (v : renv) (i : rinput) (gs : list gen_id) (written : list (gen_id * list sheetw))
  : list (gen_id * list sheetw) * option (gen_id * gfail) :=
  match gs with
  | [] => (written, None)
  | g :: t => match run_gen v i g with
              | inl sheets => run_gens v i t (written ++ [(g, sheets)])
              | inr f => (written, Some (g, f))
              end
  end.

Definition run_reports_trace (c : country) (v : renv) (i : rinput) : list (gen_id * list sheetw) * option (gen_id * gfail) :=
  run_gens v i (discovery c) [].

(** ComputedData of every asset is built before any generator runs (rp2_main: parse + compute of ALL assets first) *)
Definition run_reports (c : country) (v : renv) (i : rinput) : result (list (gen_id * list sheetw)) :=
  match computed_all i (rp_assets i) with
  | Err e => Err e
  | Ok _ =>
    match run_reports_trace c v i with
    | (l, None) => Ok l
    | (_, Some (_, f)) => Err (gfail_err f)
    end
  end.

(** ---- the facts MainRun's generator predicate looks at, computed from the rinput *)
Definition compute_with (i : rinput) (allow : bool) (a : rasset) : result computed :=
  compute (rp_period i) (rp_from i) (rp_to i) allow (rp_exchanges i) (rp_holders i) (ra_txs a) (ra_fracs a).

Definition blank_actx (a : rasset) (c : computed) : actx :=
  {| ac_idx := 0; ac_name := ra_name a; ac_txs := ra_txs a; ac_c := c; ac_extra := [] |}.

(** a summary line whose year has no gain/loss row inside the window (what the unguarded lookup of finding F2 trips over) *)
Definition hidden_year (i : rinput) (a : rasset) (c : computed) : bool :=
  existsb (fun y => negb (amem (y_year y) (ym_of i (blank_actx a c)))) (cd_yearly c).
(** holders with a line in the per-holder totals of the Tax sheet *)
Definition holders_with_balance (i : rinput) (c : computed) : Z := Z.of_nat (length (holder_totals i (cd_balances c))).
Definition event_types (c : computed) : list ttype := map (fun g => t_type (g_ev g)) (cd_gls c).

Definition facts_of_asset (i : rinput) (a : rasset) : asset_facts :=
  let shown := match computed_of i a with Ok c => Some c | Err _ => None end in
  {| af_name := ra_name a;
     (* the asset computes when negative balances are allowed *)
     af_present := match compute_with i true a with Ok _ => true | Err _ => false end;
     (* ... and without -n it is rejected for a negative balance *)
     af_negative := match compute_with i false a with Err ENegBalance => true | _ => false end;
     af_event_types := match shown with Some c => event_types c | None => [] end;
     af_hidden_year := match shown with Some c => hidden_year i a c | None => false end;
     af_holders := match shown with Some c => holders_with_balance i c | None => 0 end |}.

Definition inp_of_rinput (i : rinput) : list asset_facts := map (facts_of_asset i) (rp_assets i).

(** which generators of the country produce their report on this input (executable summary) *)
Definition gens_ok (c : country) (v : renv) (i : rinput) : list (gen_id * bool) :=
  map (fun g => (g, match run_gen v i g with inl _ => true | inr _ => false end)) (discovery c).
