(** Vocabulary for the totality of the computation ("ComputedData exists"): the conditions on the INPUT under which
    [compute] / [compute_tax] / [computed_all] return a result.  Definitions only (proofs: Proofs/ComputeTotal.v). *)
From RP2V Require Import Base.Prelude Base.Time Base.Dec Base.Sorting Base.Assoc Model.Types Model.Generated Model.Txn
  Model.Matcher Model.MatchSpec Model.FracSpec Model.Pipeline Model.Computed Model.ComputedSpec.
Open Scope Z_scope.

(** InTransaction.__init__ demands crypto_in > 0 for every type but STAKING ("staking income can be negative").  A STAKING
    acquisition of a non-positive amount is constructed, but is then a taxable event of a non-positive amount: rp2 rejects
    the history in the matcher stage (RP2ValueError: 'crypto_amount' has zero value / 'taxable_event_amount' has
    non-positive value / "Total in-transaction crypto value < total taxable crypto value"), so no ComputedData exists
    for it.  The totality statements exclude it: *)
Definition no_nonpositive_staking (h : hist) : Prop :=
  forall r, In r (h_ins h) -> ri_type r = STAKING -> 0 < ri_crypto_in r.

(** the C08 condition, as a property of the replay up to the to-date: no debit leaves the debited account more than 5
    grid units (5e-11 coins) below zero / some debit does *)
Definition never_overdrawn (to_day : Z) (t : txs) : Prop :=
  forall p x r, take_until txn_day to_day (replay_order t) = p ++ x :: r -> ~ overdrawn_at 5 p x.
Definition some_overdraft (to_day : Z) (t : txs) : Prop :=
  exists p x r, take_until txn_day to_day (replay_order t) = p ++ x :: r /\ overdrawn_at 5 p x.

(** the balance guard lets the history through: -n given, or never overdrawn *)
Definition balance_guard_passes (allow : bool) (to_day : Z) (t : txs) : Prop :=
  allow = true \/ never_overdrawn to_day t.

(** the matcher runs out of lots at some disposal (Proofs/MatcherProps.v [m_fails_iff]: the only way it fails on a
    well-formed history): the lots acquired up to the instant of the j-th event hold less than the disposals up to it need *)
Definition lots_exhausted (t : txs) (evs : list txn) : Prop :=
  exists j d, (j < length (map event_of evs))%nat /\ e_earn (nth j (map event_of evs) d) = false /\
              have (t_ins t) (e_us (nth j (map event_of evs) d)) < need (map event_of evs) j.
