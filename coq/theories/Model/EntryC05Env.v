(** plugin/country/generic.py, Generic.__init__: the long-term threshold is read from the environment variable
    LONG_TERM_CAPITAL_GAINS with [int(...)]; missing / empty / not an integer literal / negative values are rejected with
    RP2ValueError.  This file models that constructor for ASCII values and provides the driver command (cmd 4).

    [int(s)] of CPython for a [str] that is pure ASCII (the Unicode path -- other scripts' digits, Unicode white space -- is
    not modelled; for a pure-ASCII string CPython hands the characters to PyLong_FromString unchanged):
      - leading and trailing white space in the sense of C isspace (HT LF VT FF CR SPACE) is skipped -- NOT the separators
        0x1C..0x1F, which str.strip() removes but int() of an ASCII string does not;
      - one optional sign, then decimal digits with single underscores BETWEEN digits (no leading / trailing / double one);
        leading zeros are allowed ("00012"); base prefixes, exponents, fractions, inner blanks are not;
      - at most [max_digits] digit characters (sys.get_int_max_str_digits(), 4300 by default since CPython 3.11; 0 = no
        limit; CPython itself only admits 0 or values >= 640); underscores and the sign do not count, leading zeros do.
    (Model/ConfigModel.v has a [parse_int] for the integers of the configuration file; it strips with the white space of
    str.strip() because configparser has already stripped the value that way, and has no digit limit.  It is not reused.) *)
From RP2V Require Import Base.Prelude Base.Time Base.Dec Model.Types Model.Generated.
Open Scope Z_scope.

Definition is_c_space (c : Z) : bool := (c =? 32) || ((9 <=? c) && (c <=? 13)).
Definition is_digit (c : Z) : bool := (48 <=? c) && (c <=? 57).
Fixpoint lstrip_c (s : str) : str :=
  match s with c :: t => if is_c_space c then lstrip_c t else s | [] => [] end.
Definition strip_c (s : str) : str := rev (lstrip_c (rev (lstrip_c s))).

(** value and number of digits of [digit (_? digit)*]; [prev_digit] = the previous character was a digit *)
Fixpoint digits_scan (s : str) (acc : Z) (n : Z) (prev_digit : bool) : option (Z * Z) :=
  match s with
  | [] => if prev_digit then Some (acc, n) else None
  | c :: t =>
    if is_digit c then digits_scan t (acc * 10 + (c - 48)) (n + 1) true
    else if (c =? 95) && prev_digit then digits_scan t acc n false
    else None
  end.

Definition limit_ok (max_digits n : Z) : bool := (max_digits =? 0) || (n <=? max_digits).

Definition split_sign (t : str) : bool * str :=
  match t with
  | c :: r => if c =? 45 then (true, r) else if c =? 43 then (false, r) else (false, t)
  | [] => (false, [])
  end.

Definition int_of_ascii (max_digits : Z) (s : str) : option Z :=
  let '(neg, body) := split_sign (strip_c s) in
  match digits_scan body 0 0 false with
  | Some (v, n) => if limit_ok max_digits n then Some (if neg then - v else v) else None
  | None => None
  end.

Definition is_ascii (s : str) : bool := forallb (fun c => (0 <=? c) && (c <? 128)) s.

(** Generic.__init__ as far as LONG_TERM_CAPITAL_GAINS is concerned: [None] = the variable is not set *)
Definition generic_period_of_env (max_digits : Z) (v : option str) : result Z :=
  match v with
  | None => Err EValue
  | Some [] => Err EValue                                  (* `if not long_term_capital_gain_period` *)
  | Some s =>
    match int_of_ascii max_digits s with
    | None => Err EValue                                   (* int() raised ValueError *)
    | Some n => if n <? 0 then Err EValue else Ok n        (* negative value *)
    end
  end.

(** ... and what get_long_term_capital_gain_period() then returns to the classification *)
Definition generic_threshold (max_digits : Z) (v : option str) : result Z :=
  match generic_period_of_env max_digits v with
  | Ok p => Ok (country_period GENERIC p)
  | Err e => Err e
  end.

(** the decimal literal of n >= 0 as Python prints it: str(n) *)
Fixpoint rdigits (fuel : nat) (n : Z) : list Z :=
  match fuel with
  | O => []
  | S f => (n mod 10) :: (if n <? 10 then [] else rdigits f (n / 10))
  end.
Definition decimal_literal (n : Z) : str := map (fun d => 48 + d) (rev (rdigits (S (Z.to_nat (Z.log2 n))) n)).

(** cmd 4 -- [max_digits; set?; len; code points ...] -> [0; threshold] or [error code]; [-1] on a malformed request or a
    non-ASCII value (outside the model) *)
Definition entry_c05_env (a : list Z) : list Z :=
  match a with
  | md :: has :: len :: chars =>
    if negb (Z.of_nat (length chars) =? len) then [-1] else
    if has =? 0 then (match generic_threshold md None with Ok p => [0; p] | Err e => [err_code e] end) else
    if negb (is_ascii chars) then [-1] else
    match generic_threshold md (Some chars) with Ok p => [0; p] | Err e => [err_code e] end
  | _ => [-1]
  end.
