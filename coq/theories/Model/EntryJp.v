(** Entry points of the executable model for the Japanese tax report (commands 80-89). *)
From RP2V Require Import Base.Prelude Base.Time Base.Dec Model.Types Model.Generated Model.Codec Model.Grid
  Model.ReportInput Model.JpReport Model.JpLegend.
Open Scope Z_scope.

Definition enc_jp (r : result (list sheetw)) : list Z :=
  match r with Ok ss => 0 :: enc_report ss | Err e => [err_code e] end.

Definition with_rinput (a : list Z) (f : Z -> rinput -> list Z) : list Z :=
  match a with
  | lang :: s =>
    match rd_rinput s with
    | Some (Ok i, _) => f lang i
    | Some (Err e, _) => [err_code e]
    | None => [-1]
    end
  | [] => [-1]
  end.

(** cmd 80 -- [lang; rinput] -> report, with the three structural facts as the source has them
    cmd 81 -- the repaired behaviour (sorted years, previous existing year, yen value of a transfer fee guarded by the crypto fee)
    cmd 82 -- the behaviour of the unrepaired source (first-seen order, year - 1, yen value guarded by itself)
    cmd 83 -- [ys; pe; yg; lang; rinput] *)
Definition entry_jp (a : list Z) : list Z :=
  with_rinput a (fun lang i => enc_jp (jp_report lang gen_jp_intra_yen_guard_on_crypto gen_jp_years_sorted gen_jp_prev_existing_year i)).
Definition entry_jp_repaired (a : list Z) : list Z := with_rinput a (fun lang i => enc_jp (jp_report lang true true true i)).
Definition entry_jp_unrepaired (a : list Z) : list Z := with_rinput a (fun lang i => enc_jp (jp_report lang false false false i)).
Definition entry_jp_flags (a : list Z) : list Z :=
  match a with
  | ys :: pe :: yg :: s => with_rinput s (fun lang i => enc_jp (jp_report lang (yg =? 1) (ys =? 1) (pe =? 1) i))
  | _ => [-1]
  end.

(** cmd 84 -- [lang; rinput] -> the whole file: the Legend sheet (Model/JpLegend.v) followed by the report of cmd 80 *)
Definition entry_jp_full (a : list Z) : list Z :=
  with_rinput a (fun lang i => enc_jp (jp_report_full lang gen_jp_intra_yen_guard_on_crypto gen_jp_years_sorted gen_jp_prev_existing_year i)).
