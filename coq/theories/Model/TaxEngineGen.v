(** Interpreter of the source-derived wiring of tax_engine.py (Generated.v fragment `tax_engine`,
    harness/translate/frag_tax_engine.py): which sets are scanned for taxable events, in which order and under which
    predicate; what the two iterators handed to the accounting engine run over; and, for each of the four branches of the
    loop of _create_unfiltered_gain_and_loss_set, which GainLoss is built and which engine call advances.

    Proofs/TaxEngineGenProofs.v proves that, for the data of the current source, these are
    [Pipeline.taxable_unsorted], [Pipeline.taxable_events], [Matcher.loop], [Matcher.run_matcher] and
    [Pipeline.fractions_of], the hand-written definitions all theorems are about.  Definitions only. *)
From RP2V Require Import Base.Prelude Base.Time Base.Dec Base.Sorting Model.Types Model.Generated Model.Txn
  Model.Matcher Model.MatchSpec Model.Pipeline.
Open Scope Z_scope.

(** * _create_unfiltered_taxable_event_set *)
Definition te_sel (p : te_pred) (tx : txn) : bool :=
  match p with TePredTaxable => t_is_taxable tx | TePredEarning => t_is_earning tx | TePredAll => true end.

Definition scan_set (p : te_pred) (t : txs) (k : te_set) : list txn :=
  match k with
  | TeIn => map TIn (filter (fun a => te_sel p (TIn a)) (t_ins t))
  | TeOut => map TOut (filter (fun a => te_sel p (TOut a)) (t_outs t))
  | TeIntra => map TIntra (filter (fun a => te_sel p (TIntra a)) (t_intras t))
  end.

Definition taxable_unsorted_gen (t : txs) : list txn := flat_map (scan_set gen_te_filter t) gen_te_scan.

(** TransactionSet.add_entry: duplicate internal ids rejected, iteration sorted by instant (stable) *)
Definition taxable_events_gen (t : txs) : result (list txn) :=
  let l := taxable_unsorted_gen t in
  if has_dup (map t_row l) then Err EDup else Ok (sort_by t_us l).

(** * the iterators of _create_unfiltered_gain_and_loss_set.  A date-filtered copy ([TeFiltered]) has no meaning here:
    the matcher model runs on the unfiltered sets. *)
Definition lots_of (s : te_src) (t : txs) : option (list intx) :=
  match s with TeInput TeIn => Some (t_ins t) | _ => None end.
Definition events_of (s : te_src) (evs : list txn) : option (list txn) :=
  match s with TeTaxableSet => Some evs | _ => None end.

(** * the loop *)
Definition amt_of (x : te_amt) (ea la : Z) : Z := match x with TeEvAmt => ea | TeLotAmt => la | TeZero => 0 end.
Definition branch_of (e : event) (ea la : Z) : te_branch :=
  if e_earn e then gen_te_earn else if ea =? la then gen_te_eq else if ea <? la then gen_te_lt else gen_te_gt.

Section RunGen.
Variable always_repush : bool.
Variable lots : list intx.

Fixpoint loop_gen (fuel : nat) (s : mstate) (evs : list event) (e : event) (l : option nat) (ea la : Z) (out : list fraction)
  : result (list fraction) :=
  match fuel with
  | O => Err EOutOfFuel
  | S f =>
    match l with
    | None => Err ELotNone
    | Some li =>
      if (ea <? 0) || (la <? 0) then Err EValue else
      let b := branch_of e ea la in
      let x := amt_of (tb_amt b) ea la in
      if x <=? 0 then Err EValue else           (* GainLoss.__init__: crypto_amount must be positive *)
      let out' := mk_frac lots e (match tb_lot b with TeLotNone => None | TeLotCur => Some li end) x :: out in
      let ea2 := amt_of (tb_adv_ev b) ea la in
      let la2 := amt_of (tb_adv_lot b) ea la in
      let continue_ r :=
        match r with
        | Err x => Err x
        | Ok Done => Ok (rev out')
        | Ok (Next s' evs' e' l' ea' la') => loop_gen f s' evs' e' l' ea' la' out'
        end in
      match tb_adv b with
      | AdvNextEvent => continue_ (next_event always_repush lots s evs (Some e) l ea2 la2)
      | AdvNextEventAndLot => continue_ (next_event_and_lot always_repush lots s evs (Some e) l ea2 la2)
      | AdvLotForEvent =>
        match lot_for_event always_repush lots s e ea2 la2 with
        | Err x => Err x
        | Ok (s', i, ea', la') => loop_gen f s' evs e (Some i) ea' la' out'
        end
      end
    end
  end.

Definition run_matcher_gen (sched : list (Z * meth)) (evs : list event) : result (list fraction) :=
  match lots with
  | [] => Err EInternal
  | _ =>
    match next_event_and_lot always_repush lots (init_state lots sched) evs None None 0 0 with
    | Err x => Err x
    | Ok Done => Ok []
    | Ok (Next s evs' e l ea la) => loop_gen (run_fuel lots evs) s evs' e l ea la []
    end
  end.
End RunGen.

(** compute_tax up to the fractions, with the wiring taken from the data *)
Definition fractions_of_gen (always_repush : bool) (sched : list (Z * meth)) (t : txs) : result (list fraction) :=
  match taxable_events_gen t with
  | Err e => Err e
  | Ok evs =>
    match lots_of gen_te_lot_iter t, events_of gen_te_event_iter evs with
    | Some lots, Some es => run_matcher_gen always_repush lots sched (map event_of es)
    | _, _ => Err EInternal
    end
  end.
