(** Vocabulary for stating properties of a list of emitted fractions. *)
From RP2V Require Import Base.Prelude Base.Time Base.Dec Model.Types Model.Generated Model.Matcher Model.MatchSpec.
Open Scope Z_scope.

Definition frac_of_lot (row : Z) (f : fraction) : bool :=
  match f_lot f with Some r => r =? row | None => false end.
Definition frac_of_ev (row : Z) (f : fraction) : bool := f_ev f =? row.

(** total amount taken from the lot with sheet row [row] / for the event with row [row] *)
Definition lot_taken (fs : list fraction) (row : Z) : Z := sumZ (map f_amt (filter (frac_of_lot row) fs)).
Definition ev_taken (fs : list fraction) (row : Z) : Z := sumZ (map f_amt (filter (frac_of_ev row) fs)).

(** unconsumed balance of lot i after the fractions fs *)
Definition rem_after (lots : list intx) (fs : list fraction) (i : nat) : Z :=
  i_crypto_in (lotn lots i) - lot_taken fs (i_row (lotn lots i)).

(** total amount of the lots acquired at or before instant t *)
Definition have (lots : list intx) (t : Z) : Z :=
  sumZ (map i_crypto_in (filter (fun l => utc_us (i_ts l) <=? t) lots)).
(** total amount disposed of by the first (S j) events *)
Definition need (evs : list event) (j : nat) : Z :=
  sumZ (map e_amt (filter (fun e => negb (e_earn e)) (firstn (S j) evs))).
