(** Executable entry point of the end-to-end ("ods") stream of the L2-L4 checks (command 31).

    The properties C01-C10 speak about what the PROGRAM computes from a spreadsheet.  The other commands of this range feed
    the matcher / aggregation models with transactions built by the constructors; this one starts from the CELLS of the input
    sheet, exactly as [EndToEnd.rp2_model] does for one asset:

      [Parser.parse_sheet]                  the cells -> parsed transactions (crypto-fee split, artificial ids)
      [TableOrderSpec.txs_of_parsed]        -> time-sorted transaction sets (InputData / TransactionSet)
      [Pipeline.fractions_of gen_always_repush sched]   taxable events + matcher     (both inside [EndToEnd.asset_of])
      [Computed.compute]                    figures, yearly summary, balances, filtered views

    Only glue is defined here; every stage is an existing definition.

    cmd 31 -- [mode; period; from_day; to_day; allow; sched; in_header; out_header; intra_header; assets; exchanges; holders;
               timestamp oracle; asset; counter; rows]        (from [in_header] on: the input of cmd 41)
      mode 0 -> [Codec.enc_computed] of the ComputedData   (or the error code; an overdraft without -n: [7; exchange; holder])
      mode 1 -> [Codec.enc_fracs] of the greedy specification ([Pipeline.spec_fractions_of]) on the same transaction sets *)
From RP2V Require Import Base.Prelude Base.Time Base.Dec Base.Sorting Model.Types Model.Generated Model.Txn Model.Matcher Model.Pipeline
  Model.Codec Model.Computed Model.Parser Model.TableOrderSpec Model.ReportInput Model.EndToEnd Model.EntryL1.
Open Scope Z_scope.

Definition ods_computed (period from_day to_day : Z) (allow : bool) (sched : list (Z * meth)) (cfg : pcfg) (asset : str)
  (p : parsed) : list Z :=
  match asset_of sched (asset, p) with
  | Err e => [err_code e]
  | Ok ra =>
    match compute period from_day to_day allow (pc_exchanges cfg) (pc_holders cfg) (ra_txs ra) (ra_fracs ra) with
    | Ok c => enc_computed period c
    | Err ENegBalance =>
      (* as command 30: the account whose balance goes negative first (the one the error message names) *)
      let t := ra_txs ra in
      let all := Sorting.sort_by t_us (map TIn (t_ins t) ++ map TIntra (t_intras t) ++ map TOut (t_outs t)) in
      match first_negative allow {| bs_acq := []; bs_sent := []; bs_recv := []; bs_final := [] |}
                           (take_until (fun x => local_day (t_ts x)) to_day all) with
      | Some (ex, ho) => [7; ex; ho]
      | None => [7; -1; -1]
      end
    | Err e => [err_code e]
    end
  end.

Definition ods_spec (sched : list (Z * meth)) (p : parsed) : list Z :=
  match txs_of_parsed p with
  | Err e => [err_code e]
  | Ok t => enc_fracs (spec_fractions_of sched t)
  end.

Definition entry_ods (a : list Z) : list Z :=
  match a with
  | mode :: period :: from_day :: to_day :: allow :: s0 =>
    match rd_list rd_sched_entry s0 with
    | None => [-1]
    | Some (sched, s1) =>
      rd_pcfg_and (fun cfg s =>
        match rd_str s with None => [-1] | Some (asset, s2) =>
        match s2 with [] => [-1] | counter :: s3 =>
        match rd_list (rd_list rd_cell) s3 with None => [-1] | Some (rows, _) =>
          match parse_sheet cfg asset counter rows with
          | Err e => [err_code e]
          | Ok p => if mode =? 1 then ods_spec sched p
                    else ods_computed period from_day to_day (allow =? 1) sched cfg asset p
          end
        end end end) s1
    end
  | _ => [-1]
  end.
