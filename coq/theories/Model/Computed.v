(** ComputedData, GainLossSet numbering, BalanceSet, date-filtered views: everything
    compute_tax derives from the transactions and the list of gain/loss fractions. *)
From RP2V Require Import Base.Prelude Base.Time Base.Dec Base.Sorting Base.Assoc Model.Types Model.Generated Model.Txn
  Model.Matcher Model.Pipeline.
Open Scope Z_scope.

Record gl := { g_ev : txn; g_lot : option intx; g_amt : Z }.

Definition find_ev (evs : list txn) (row : Z) : option txn := find (fun t => t_row t =? row) evs.
Definition find_lot (lots : list intx) (row : Z) : option intx := find (fun t => i_row t =? row) lots.

Definition resolve (evs : list txn) (lots : list intx) (f : fraction) : option gl :=
  match find_ev evs (f_ev f) with
  | None => None
  | Some e =>
    match f_lot f with
    | None => Some {| g_ev := e; g_lot := None; g_amt := f_amt f |}
    | Some r => match find_lot lots r with
                | None => None
                | Some l => Some {| g_ev := e; g_lot := Some l; g_amt := f_amt f |}
                end
    end
  end.

Fixpoint resolve_all (evs : list txn) (lots : list intx) (fs : list fraction) : option (list gl) :=
  match fs with
  | [] => Some []
  | f :: t => match resolve evs lots f, resolve_all evs lots t with
              | Some g, Some gs => Some (g :: gs)
              | _, _ => None
              end
  end.

Definition g_day (g : gl) : Z := local_day (t_ts (g_ev g)).
Definition g_year (g : gl) : Z := local_year (t_ts (g_ev g)).
Definition g_proceeds (g : gl) : option dec := gl_proceeds (g_ev g) (g_amt g).
Definition g_cost (g : gl) : option dec := gl_cost_basis (g_ev g) (g_lot g) (g_amt g).
Definition g_gain (g : gl) : option dec := gl_gain (g_ev g) (g_lot g) (g_amt g).
Definition g_long (period : Z) (g : gl) : bool := gl_is_long period (g_ev g) (g_lot g).

(** EntrySetIterator: walk the instant-sorted list, stop at the first entry whose local
    date is after to_date, skip entries before from_date *)
Section Iter.
Context {A : Type} (day : A -> Z) (from_ to_ : Z).
Fixpoint iter_window (l : list A) : list A :=
  match l with
  | [] => []
  | x :: t => if to_ <? day x then [] else if from_ <=? day x then x :: iter_window t else iter_window t
  end.
(** loops with only the `> to_date: break` test *)
Fixpoint take_until (l : list A) : list A :=
  match l with
  | [] => []
  | x :: t => if to_ <? day x then [] else x :: take_until t
  end.
End Iter.

(** ---------- yearly gain/loss list *)
Record yline := { y_year : Z; y_type : ttype; y_long : bool; y_crypto : Z; y_fiat : dec; y_cost : dec; y_gain : dec }.
Definition ykey (year : Z) (ty : ttype) (long : bool) : Z := year * 1000 + (if long then 0 else 100) + ttype_code ty.
Definition yline_key (l : yline) : Z := ykey (y_year l) (y_type l) (y_long l).

Definition yearly_add (period : Z) (acc : result (assoc yline)) (g : gl) : result (assoc yline) :=
  match acc with
  | Err e => Err e
  | Ok m =>
    match g_proceeds g, g_cost g, g_gain g with
    | Some p, Some c, Some gn =>
      let year := g_year g in let ty := t_type (g_ev g) in let long := g_long period g in
      let k := ykey year ty long in
      let old := aget_d {| y_year := year; y_type := ty; y_long := long; y_crypto := 0; y_fiat := dzero; y_cost := dzero; y_gain := dzero |} k m in
      Ok (aset k {| y_year := year; y_type := ty; y_long := long; y_crypto := y_crypto old + g_amt g;
                    y_fiat := dadd (y_fiat old) p; y_cost := dadd (y_cost old) c; y_gain := dadd (y_gain old) gn |} m)
    | _, _, _ => Err EInternal
    end
  end.

(** sorted by the string "asset year LONG|SHORT type" descending; for 4-digit years this is the
    numeric key (types are declared in alphabetical order, "LONG" < "SHORT") *)
Definition yearly_list (period to_day from_year : Z) (gls : list gl) : result (list yline) :=
  match fold_left (yearly_add period) (take_until g_day to_day gls) (Ok []) with
  | Err e => Err e
  | Ok m => Ok (filter (fun l => from_year <=? y_year l) (sort_by (fun l => - yline_key l) (map snd m)))
  end.

(** ---------- GainLossSet._sort_entries: fraction numbering *)
Record numst := {
  n_ev_amt : Z; n_ev_frac : nat;
  n_lot_amt : assoc Z; n_lot_frac : assoc nat;
  n_ev_fraction : list nat;                 (* per processed fraction, in order *)
  n_lot_fraction : list (option nat);
  n_ev_total : assoc nat;                   (* event row -> number of fractions *)
  n_lot_total : assoc nat;
  n_last_with_lot : option gl }.

Definition num_step (st : result numst) (g : gl) : result numst :=
  match st with
  | Err e => Err e
  | Ok s =>
    let ev_row := t_row (g_ev g) in
    let ev_amt := n_ev_amt s + g_amt g in
    let want := t_balance_change (g_ev g) in
    let r1 : result (Z * nat * assoc nat) :=
      if ev_amt =? want then
        (if amem ev_row (n_ev_total s) then Err EValue else Ok (0, O, aset ev_row (S (n_ev_frac s)) (n_ev_total s)))
      else if ev_amt <? want then Ok (ev_amt, S (n_ev_frac s), n_ev_total s)
      else Err EValue in
    match r1 with
    | Err e => Err e
    | Ok (ev_amt', ev_frac', ev_total') =>
      match g_lot g with
      | None =>
        Ok {| n_ev_amt := ev_amt'; n_ev_frac := ev_frac'; n_lot_amt := n_lot_amt s; n_lot_frac := n_lot_frac s;
              n_ev_fraction := n_ev_fraction s ++ [n_ev_frac s]; n_lot_fraction := n_lot_fraction s ++ [None];
              n_ev_total := ev_total'; n_lot_total := n_lot_total s; n_last_with_lot := n_last_with_lot s |}
      | Some l =>
        let lr := i_row l in
        let la := aget_d 0 lr (n_lot_amt s) + g_amt g in
        let lf := aget_d O lr (n_lot_frac s) in
        let lwant := in_crypto_balance_change l in
        let r2 : result (assoc Z * assoc nat * assoc nat) :=
          if la =? lwant then
            (if amem lr (n_lot_total s) then Err EValue
             else Ok (adel lr (n_lot_amt s), adel lr (n_lot_frac s), aset lr (S lf) (n_lot_total s)))
          else if la <? lwant then Ok (aset lr la (n_lot_amt s), aset lr (S lf) (n_lot_frac s), n_lot_total s)
          else Err EValue in
        match r2 with
        | Err e => Err e
        | Ok (lot_amt', lot_frac', lot_total') =>
          Ok {| n_ev_amt := ev_amt'; n_ev_frac := ev_frac'; n_lot_amt := lot_amt'; n_lot_frac := lot_frac';
                n_ev_fraction := n_ev_fraction s ++ [n_ev_frac s]; n_lot_fraction := n_lot_fraction s ++ [Some lf];
                n_ev_total := ev_total'; n_lot_total := lot_total'; n_last_with_lot := Some g |}
        end
      end
    end
  end.

Definition num_init : numst :=
  {| n_ev_amt := 0; n_ev_frac := O; n_lot_amt := []; n_lot_frac := []; n_ev_fraction := []; n_lot_fraction := [];
     n_ev_total := []; n_lot_total := []; n_last_with_lot := None |}.

Fixpoint merge_totals (pending : assoc nat) (tot : assoc nat) : result (assoc nat) :=
  match pending with
  | [] => Ok tot
  | (k, v) :: t => if amem k tot then Err EValue else merge_totals t (aset k v tot)
  end.

(** returns per-fraction (event fraction index, lot fraction index) and the totals *)
Definition numbering (to_day : Z) (gls : list gl) : result (list nat * list (option nat) * assoc nat * assoc nat) :=
  match fold_left num_step (take_until g_day to_day gls) (Ok num_init) with
  | Err e => Err e
  | Ok s =>
    let ev_total_r : result (assoc nat) :=
      match n_last_with_lot s with
      | Some g => if n_ev_amt s >? 0
                  then (let r := t_row (g_ev g) in if amem r (n_ev_total s) then Err EValue else Ok (aset r (n_ev_frac s) (n_ev_total s)))
                  else Ok (n_ev_total s)
      | None => Ok (n_ev_total s)
      end in
    match ev_total_r with
    | Err e => Err e
    | Ok evt =>
      match merge_totals (n_lot_frac s) (n_lot_total s) with
      | Err e => Err e
      | Ok lott => Ok (n_ev_fraction s, n_lot_fraction s, evt, lott)
      end
    end
  end.

(** ---------- BalanceSet *)
Record balance := { b_exch : Z; b_holder : Z; b_final : Z; b_acquired : Z; b_sent : Z; b_received : Z }.
Definition acct_key (ex ho : Z) : Z := ex * 100000 + ho.

Record balst := { bs_acq : assoc Z; bs_sent : assoc Z; bs_recv : assoc Z; bs_final : assoc (Z * Z * Z) }.
(* bs_final: key -> (exch, holder, balance), insertion order = first touch *)

Definition fin_get (k : Z) (m : assoc (Z * Z * Z)) : Z := match aget k m with Some (_, _, v) => v | None => 0 end.
Definition add_to (k : Z) (v : Z) (m : assoc Z) : assoc Z := aset k (aget_d 0 k m + v) m.

(** quantize(1e-10) of a grid value is non-zero and the value is negative *)
Definition goes_negative (bal : Z) : bool :=
  match quant gen_balance_mask_digits (of_grid bal) with
  | Some q => negb (q =? 0) && (bal <? 0)
  | None => bal <? 0
  end.

Definition bal_step (allow : bool) (st : result balst) (t : txn) : result balst :=
  match st with
  | Err e => Err e
  | Ok s =>
    match t with
    | TIn a =>
      let k := acct_key (i_exch a) (i_holder a) in
      Ok {| bs_acq := add_to k (i_crypto_in a) (bs_acq s); bs_sent := bs_sent s; bs_recv := bs_recv s;
            bs_final := aset k (i_exch a, i_holder a, fin_get k (bs_final s) + i_crypto_in a) (bs_final s) |}
    | TIntra a =>
      let kf := acct_key (x_from_exch a) (x_from_holder a) in
      let kt := acct_key (x_to_exch a) (x_to_holder a) in
      let f1 := aset kf (x_from_exch a, x_from_holder a, fin_get kf (bs_final s) - x_crypto_sent a) (bs_final s) in
      let f2 := aset kt (x_to_exch a, x_to_holder a, fin_get kt f1 + x_crypto_received a) f1 in
      if goes_negative (fin_get kf f2) && negb allow then Err ENegBalance else
      Ok {| bs_acq := bs_acq s; bs_sent := add_to kf (x_crypto_sent a) (bs_sent s);
            bs_recv := add_to kt (x_crypto_received a) (bs_recv s); bs_final := f2 |}
    | TOut a =>
      let k := acct_key (o_exch a) (o_holder a) in
      let debit := o_crypto_out_no_fee a + o_crypto_fee a in
      let f1 := aset k (o_exch a, o_holder a, fin_get k (bs_final s) - debit) (bs_final s) in
      if goes_negative (fin_get k f1) && negb allow then Err ENegBalance else
      Ok {| bs_acq := bs_acq s; bs_sent := add_to k debit (bs_sent s); bs_recv := bs_recv s; bs_final := f1 |}
    end
  end.

Definition acct_name (exs hos : list str) (ex ho : Z) : str :=
  nth (Z.to_nat ex) exs [] ++ [95] ++ nth (Z.to_nat ho) hos [].

Definition balances (allow : bool) (to_day : Z) (exs hos : list str) (t : txs) : result (list balance) :=
  let all := sort_by t_us (map TIn (t_ins t) ++ map TIntra (t_intras t) ++ map TOut (t_outs t)) in
  match fold_left (bal_step allow) (take_until (fun x => local_day (t_ts x)) to_day all) (Ok {| bs_acq := []; bs_sent := []; bs_recv := []; bs_final := [] |}) with
  | Err e => Err e
  | Ok s =>
    let bl := map (fun kv => let '(k, (ex, ho, v)) := kv in
                             {| b_exch := ex; b_holder := ho; b_final := v; b_acquired := aget_d 0 k (bs_acq s);
                                b_sent := aget_d 0 k (bs_sent s); b_received := aget_d 0 k (bs_recv s) |}) (bs_final s) in
    Ok (sort_leb (fun a b => str_leb (acct_name exs hos (b_exch a) (b_holder a)) (acct_name exs hos (b_exch b) (b_holder b))) bl)
  end.

(** which account went negative first (for the error message) *)
Fixpoint first_negative (allow : bool) (st : balst) (l : list txn) : option (Z * Z) :=
  match l with
  | [] => None
  | t :: r =>
    match bal_step allow (Ok st) t with
    | Ok s' => first_negative allow s' r
    | Err _ => match t with
               | TIntra a => Some (x_from_exch a, x_from_holder a)
               | TOut a => Some (o_exch a, o_holder a)
               | TIn a => Some (i_exch a, i_holder a)
               end
    end
  end.

(** ---------- running sums, average price, sold percentage *)
Fixpoint running {A} (f : A -> Z) (acc : Z) (l : list A) : list Z :=
  match l with [] => [] | x :: t => let a := acc + f x in a :: running f a t end.

Definition price_per_unit (to_day : Z) (ins : list intx) : result dec :=
  let l := take_until (fun a => local_day (i_ts a)) to_day ins in
  match l with
  | [] => Ok dzero
  | _ =>
    let c := fold_left (fun acc a => acc + i_crypto_in a) l 0 in
    let f := fold_left (fun acc a => dadd acc (i_fiat_in_with_fee a)) l dzero in
    match ddiv f (of_grid c) with Some d => Ok d | None => Err EInternal end
  end.

Definition sold_pct_add (from_day to_day : Z) (acc : result (assoc dec)) (g : gl) : result (assoc dec) :=
  match acc with
  | Err e => Err e
  | Ok m =>
    match g_lot g with
    | None => Ok m
    | Some l =>
      let d := local_day (i_ts l) in
      if (d <? from_day) || (to_day <? d) then Ok m else
      match gl_lot_pct (g_ev g) (g_lot g) (g_amt g) with
      | Some p => Ok (aset (i_row l) (dadd (aget_d dzero (i_row l) m) p) m)
      | None => Err EInternal
      end
    end
  end.

Record computed := {
  cd_events : list txn;                 (* filtered taxable events *)
  cd_gls : list gl;                     (* filtered fractions *)
  cd_evfrac : list (nat * nat);         (* per filtered fraction: (index, count) *)
  cd_lotfrac : list (option (nat * nat));
  cd_gl_running : list Z;               (* running sum of the *unfiltered* fractions, aligned with all fractions *)
  cd_all_gls : list gl;
  cd_yearly : list yline;
  cd_balances : list balance;
  cd_price : dec;
  cd_ins : list intx; cd_outs : list outtx; cd_intras : list intratx;
  cd_in_running : list (Z * Z * Z);     (* row, crypto_in running sum, fee running sum (unfiltered) *)
  cd_out_running : list (Z * Z * Z);
  cd_intra_running : list (Z * Z);
  cd_sold_pct : assoc dec }.

Fixpoint zip3 (a : list Z) (b : list Z) (c : list Z) : list (Z * Z * Z) :=
  match a, b, c with x :: a', y :: b', z :: c' => (x, y, z) :: zip3 a' b' c' | _, _, _ => [] end.

Definition nat_pair_of (evt : assoc nat) (row : Z) (i : nat) : nat * nat := (i, aget_d O row evt).

Definition compute (period from_day to_day : Z) (allow : bool) (exs hos : list str) (t : txs) (fs : list fraction)
  : result computed :=
  match taxable_events t with
  | Err e => Err e
  | Ok evs =>
    match resolve_all evs (t_ins t) fs with
    | None => Err EInternal
    | Some gls =>
      let gls := sort_by (fun g => t_us (g_ev g)) gls in
      match numbering to_day gls with
      | Err e => Err e
      | Ok (evf, lotf, evt, lott) =>
        match yearly_list period to_day (year_of_day from_day) gls with
        | Err e => Err e
        | Ok yl =>
          match balances allow to_day exs hos t with
          | Err e => Err e
          | Ok bl =>
            match price_per_unit to_day (t_ins t) with
            | Err e => Err e
            | Ok ppu =>
              let fgls := iter_window g_day from_day to_day gls in
              match fold_left (sold_pct_add from_day to_day) fgls (Ok []) with
              | Err e => Err e
              | Ok sold =>
                (* fraction labels of the filtered fractions: positions in the to_date-cut list *)
                let cut := take_until g_day to_day gls in
                let labelled := combine cut (combine evf lotf) in
                let flab := iter_window (fun x => g_day (fst x)) from_day to_day labelled in
                Ok {| cd_events := iter_window (fun x => local_day (t_ts x)) from_day to_day evs;
                      cd_gls := fgls;
                      cd_evfrac := map (fun x => nat_pair_of evt (t_row (g_ev (fst x))) (fst (snd x))) flab;
                      cd_lotfrac := map (fun x => match g_lot (fst x), snd (snd x) with
                                                  | Some l, Some i => Some (i, aget_d O (i_row l) lott)
                                                  | _, _ => None end) flab;
                      cd_gl_running := running g_amt 0 gls;
                      cd_all_gls := gls;
                      cd_yearly := yl; cd_balances := bl; cd_price := ppu;
                      cd_ins := iter_window (fun a => local_day (i_ts a)) from_day to_day (t_ins t);
                      cd_outs := iter_window (fun a => local_day (o_ts a)) from_day to_day (t_outs t);
                      cd_intras := iter_window (fun a => local_day (x_ts a)) from_day to_day (t_intras t);
                      cd_in_running := zip3 (map i_row (t_ins t)) (running i_crypto_in 0 (t_ins t)) (running i_crypto_fee 0 (t_ins t));
                      cd_out_running := zip3 (map o_row (t_outs t)) (running o_crypto_out_no_fee 0 (t_outs t)) (running o_crypto_fee 0 (t_outs t));
                      cd_intra_running := combine (map x_row (t_intras t)) (running x_crypto_fee 0 (t_intras t));
                      cd_sold_pct := sold |}
              end
            end
          end
        end
      end
    end
  end.
