(** The "valid spreadsheet" side of property C11: typed source rows, their rendering into a cell
    grid under an arbitrary column layout (with junk in unmapped columns, any table order, blank
    rows between tables), and the transactions the property text expects for them -- computed from
    the typed rows alone (no cells, no header maps, no state machine).  Mirrors harness/l1.py
    [render] / [expected]. *)
From RP2V Require Import Base.Prelude Base.Time Base.Dec Base.Sorting Model.Types Model.Generated Model.Txn Model.Parser.
Open Scope Z_scope.

(** a number as the spreadsheet holds it: the exact binary value num / den of a double *)
Definition dbl := (Z * Z)%type.
Definition num_cell (q : dbl) : cell := CNum (fst q) (snd q).
Definition onum_cell (o : option dbl) : cell := match o with Some q => num_cell q | None => CEmpty end.
Definition conv (q : dbl) : Z := num11 (fst q) (snd q).

Record src_in := {
  si_ts : str; si_exch : str; si_holder : str; si_type : str;
  si_spot : dbl; si_cin : dbl;
  si_cfee : option dbl; si_f1 : option dbl; si_f2 : option dbl; si_f3 : option dbl;
  si_uid : cell; si_notes : cell }.
Record src_out := {
  so_ts : str; so_exch : str; so_holder : str; so_type : str;
  so_spot : dbl; so_nofee : dbl; so_fee : dbl;
  so_w : option dbl; so_f1 : option dbl; so_f2 : option dbl;
  so_uid : cell; so_notes : cell }.
Record src_intra := {
  sx_ts : str; sx_fe : str; sx_fh : str; sx_te : str; sx_th : str;
  sx_spot : option dbl; sx_sent : dbl; sx_recv : dbl;
  sx_uid : cell; sx_notes : cell }.
Inductive srow := SIn (s : src_in) | SOut (s : src_out) | SIntra (s : src_intra).

(** the cell a source row has for field id [f] of its table *)
Definition in_cell (asset : str) (s : src_in) (f : Z) : cell :=
  if f =? 0 then CStr (si_ts s) else if f =? 1 then CStr asset else if f =? 2 then CStr (si_exch s) else
  if f =? 3 then CStr (si_holder s) else if f =? 4 then CStr (si_type s) else if f =? 5 then num_cell (si_spot s) else
  if f =? 6 then num_cell (si_cin s) else if f =? 7 then onum_cell (si_cfee s) else if f =? 8 then onum_cell (si_f1 s) else
  if f =? 9 then onum_cell (si_f2 s) else if f =? 10 then onum_cell (si_f3 s) else if f =? 11 then si_uid s else si_notes s.
Definition out_cell (asset : str) (s : src_out) (f : Z) : cell :=
  if f =? 0 then CStr (so_ts s) else if f =? 1 then CStr asset else if f =? 2 then CStr (so_exch s) else
  if f =? 3 then CStr (so_holder s) else if f =? 4 then CStr (so_type s) else if f =? 5 then num_cell (so_spot s) else
  if f =? 6 then num_cell (so_nofee s) else if f =? 7 then num_cell (so_fee s) else if f =? 8 then onum_cell (so_w s) else
  if f =? 9 then onum_cell (so_f1 s) else if f =? 10 then onum_cell (so_f2 s) else if f =? 11 then so_uid s else so_notes s.
Definition intra_cell (asset : str) (s : src_intra) (f : Z) : cell :=
  if f =? 0 then CStr (sx_ts s) else if f =? 1 then CStr asset else if f =? 2 then CStr (sx_fe s) else
  if f =? 3 then CStr (sx_fh s) else if f =? 4 then CStr (sx_te s) else if f =? 5 then CStr (sx_th s) else
  if f =? 6 then onum_cell (sx_spot s) else if f =? 7 then num_cell (sx_sent s) else if f =? 8 then num_cell (sx_recv s) else
  if f =? 9 then sx_uid s else sx_notes s.
Definition srow_cell (asset : str) (r : srow) : Z -> cell :=
  match r with SIn s => in_cell asset s | SOut s => out_cell asset s | SIntra s => intra_cell asset s end.
Definition srow_tab (r : srow) : table := match r with SIn _ => TabIn | SOut _ => TabOut | SIntra _ => TabIntra end.

(** ---------- rendering *)
Fixpoint col_field (c : Z) (h : list (Z * Z)) : option Z :=
  match h with [] => None | (f, c') :: t => if c =? c' then Some f else col_field c t end.

(** a row of [width] cells: the field's cell in every mapped column, junk everywhere else *)
Definition render_row (h : list (Z * Z)) (width : nat) (fc : Z -> cell) (junk : nat -> cell) : list cell :=
  map (fun c => match col_field (Z.of_nat c) h with Some f => fc f | None => junk c end) (seq 0 width).

Definition header_of (cfg : pcfg) (t : table) : list (Z * Z) :=
  match t with TabIn => pc_in cfg | TabOut => pc_out cfg | TabIntra => pc_intra cfg end.

Record block := {
  b_tab : table;
  b_gap : list (list cell);            (* blank rows before the table *)
  b_kw : list cell;                    (* the keyword row *)
  b_hdr : list cell;                   (* the header row *)
  b_rows : list (srow * (nat -> cell));(* data rows with their junk *)
  b_end : list cell;                   (* the TABLE END row *)
  b_width : nat }.

Definition render_block (cfg : pcfg) (asset : str) (b : block) : list (list cell) :=
  b_gap b ++ [b_kw b; b_hdr b]
  ++ map (fun rj => render_row (header_of cfg (b_tab b)) (b_width b) (srow_cell asset (fst rj)) (snd rj)) (b_rows b)
  ++ [b_end b].
Definition render_sheet (cfg : pcfg) (asset : str) (blocks : list block) (trailing : list (list cell)) : list (list cell) :=
  flat_map (render_block cfg asset) blocks ++ trailing.
Definition block_len (b : block) : Z := Z.of_nat (length (b_gap b)) + 3 + Z.of_nat (length (b_rows b)).

(** ---------- expected transactions, from the typed rows *)
Definition mapped (h : list (Z * Z)) (f : Z) : bool := match lookup_col f h with Some _ => true | None => false end.
Definition opt_field (h : list (Z * Z)) (f : Z) (v : option dbl) : option Z :=
  if mapped h f then option_map conv v else None.

(** what a string cell resolves to under the configuration *)
Definition res_ts (cfg : pcfg) (s : str) : option tstamp := match ts_lookup s (pc_ts cfg) with TsAware t => Some t | _ => None end.
Definition res_exch (cfg : pcfg) (s : str) : option Z := str_index s (pc_exchanges cfg) 0.
Definition res_holder (cfg : pcfg) (s : str) : option Z := str_index s (pc_holders cfg) 0.

Definition raw_of_in (cfg : pcfg) (rowno : Z) (s : src_in) : option raw_in :=
  let h := pc_in cfg in
  match res_ts cfg (si_ts s), res_exch cfg (si_exch s), res_holder cfg (si_holder s), ttype_of_str (si_type s) with
  | Some ts, Some ex, Some ho, Some ty =>
    Some {| ri_row := rowno; ri_ts := ts; ri_exch := ex; ri_holder := ho; ri_type := ty;
            ri_spot := conv (si_spot s); ri_crypto_in := conv (si_cin s);
            ri_crypto_fee := opt_field h 7 (si_cfee s); ri_fiat_in_no_fee := opt_field h 8 (si_f1 s);
            ri_fiat_in_with_fee := opt_field h 9 (si_f2 s); ri_fiat_fee := opt_field h 10 (si_f3 s) |}
  | _, _, _, _ => None
  end.
Definition raw_of_out (cfg : pcfg) (rowno : Z) (s : src_out) : option raw_out :=
  let h := pc_out cfg in
  match res_ts cfg (so_ts s), res_exch cfg (so_exch s), res_holder cfg (so_holder s), ttype_of_str (so_type s) with
  | Some ts, Some ex, Some ho, Some ty =>
    Some {| ro_row := rowno; ro_ts := ts; ro_exch := ex; ro_holder := ho; ro_type := ty;
            ro_spot := conv (so_spot s); ro_crypto_out_no_fee := conv (so_nofee s); ro_crypto_fee := conv (so_fee s);
            ro_crypto_out_with_fee := opt_field h 8 (so_w s); ro_fiat_out_no_fee := opt_field h 9 (so_f1 s);
            ro_fiat_fee := opt_field h 10 (so_f2 s) |}
  | _, _, _, _ => None
  end.
Definition raw_of_intra (cfg : pcfg) (rowno : Z) (s : src_intra) : option raw_intra :=
  match res_ts cfg (sx_ts s), res_exch cfg (sx_fe s), res_holder cfg (sx_fh s), res_exch cfg (sx_te s), res_holder cfg (sx_th s) with
  | Some ts, Some fe, Some fh, Some te, Some th =>
    Some {| rx_row := rowno; rx_ts := ts; rx_from_exch := fe; rx_from_holder := fh; rx_to_exch := te; rx_to_holder := th;
            rx_spot := option_map conv (sx_spot s); rx_crypto_sent := conv (sx_sent s); rx_crypto_received := conv (sx_recv s) |}
  | _, _, _, _, _ => None
  end.

(** accumulated result: the three sets in insertion order, the artificial fee disposals, the id counter, unique_id / notes *)
Record acc := {
  a_ins : list intx; a_outs : list outtx; a_intras : list intratx; a_art : list outtx; a_counter : Z;
  a_meta : list (Z * arg * arg) }.

Definition meta_arg (h : list (Z * Z)) (f : Z) (c : cell) : arg := if mapped h f then ACell c else ANone.

(** one data row: its transaction (constructor defaults as in Txn.v), the crypto-fee split for acquisitions *)
Definition expect_row (cfg : pcfg) (a : acc) (rowno : Z) (r : srow) : result acc :=
  match r with
  | SIn s =>
    let h := pc_in cfg in
    match raw_of_in cfg rowno s with
    | None => Err EValue
    | Some raw =>
      do tx <- mk_in raw;
      let m := (rowno, meta_arg h 11 (si_uid s), meta_arg h 12 (si_notes s)) in
      if 0 <? i_crypto_fee tx then
        do tx' <- split_in tx;
        let id := a_counter a - 1 in
        do o <- fee_out tx id;
        Ok {| a_ins := a_ins a ++ [tx']; a_outs := a_outs a; a_intras := a_intras a; a_art := a_art a ++ [o]; a_counter := id;
              a_meta := a_meta a ++ [m; (id, meta_arg h 11 (si_uid s), ANone)] |}
      else
        Ok {| a_ins := a_ins a ++ [tx]; a_outs := a_outs a; a_intras := a_intras a; a_art := a_art a; a_counter := a_counter a;
              a_meta := a_meta a ++ [m] |}
    end
  | SOut s =>
    let h := pc_out cfg in
    match raw_of_out cfg rowno s with
    | None => Err EValue
    | Some raw =>
      do tx <- mk_out raw;
      Ok {| a_ins := a_ins a; a_outs := a_outs a ++ [tx]; a_intras := a_intras a; a_art := a_art a; a_counter := a_counter a;
            a_meta := a_meta a ++ [(rowno, meta_arg h 11 (so_uid s), meta_arg h 12 (so_notes s))] |}
    end
  | SIntra s =>
    let h := pc_intra cfg in
    match raw_of_intra cfg rowno s with
    | None => Err EValue
    | Some raw =>
      do tx <- mk_intra raw;
      Ok {| a_ins := a_ins a; a_outs := a_outs a; a_intras := a_intras a ++ [tx]; a_art := a_art a; a_counter := a_counter a;
            a_meta := a_meta a ++ [(rowno, meta_arg h 9 (sx_uid s), meta_arg h 10 (sx_notes s))] |}
    end
  end.

Fixpoint expect_rows (cfg : pcfg) (a : acc) (rowno : Z) (rows : list (srow * (nat -> cell))) : result acc :=
  match rows with
  | [] => Ok a
  | r :: t => match expect_row cfg a rowno (fst r) with Err e => Err e | Ok a' => expect_rows cfg a' (rowno + 1) t end
  end.

(** blocks: the data rows of a block starting at sheet row [rowno] are rows rowno + gap + 2, ... *)
Fixpoint expect_blocks (cfg : pcfg) (a : acc) (rowno : Z) (blocks : list block) : result acc :=
  match blocks with
  | [] => Ok a
  | b :: t =>
    match expect_rows cfg a (rowno + Z.of_nat (length (b_gap b)) + 2) (b_rows b) with
    | Err e => Err e
    | Ok a' => expect_blocks cfg a' (rowno + block_len b) t
    end
  end.

Definition parsed_of (a : acc) : parsed :=
  {| pa_ins := a_ins a; pa_outs := a_outs a ++ a_art a; pa_intras := a_intras a; pa_counter := a_counter a; pa_meta := a_meta a |}.
Definition acc0 (counter : Z) : acc :=
  {| a_ins := []; a_outs := []; a_intras := []; a_art := []; a_counter := counter; a_meta := [] |}.

(** the transactions the property expects for a sheet made of [blocks] *)
Definition expected (cfg : pcfg) (counter : Z) (blocks : list block) : result parsed :=
  match expect_blocks cfg (acc0 counter) 1 blocks with Err e => Err e | Ok a => Ok (parsed_of a) end.

(** ---------- validity of a rendered sheet (what "valid config / spreadsheet pair" means) *)
Definition first_ok (c : cell) : bool :=
  negb (is_empty_cell c) && negb (is_table_end c) && (match table_of_cell c with None => true | Some _ => false end).
Definition is_blank_row (r : list cell) : bool := is_empty_cell (nth 0 r CEmpty).
Definition notes_cell_ok (c : cell) : bool := notes_ok (ACell c).

Definition wf_header (h : list (Z * Z)) (width : nat) : Prop :=
  NoDup (map snd h) /\ (forall f c, In (f, c) h -> 0 <= c < Z.of_nat width) /\ (0 < width)%nat.

Definition den_ok (q : dbl) : bool := 0 <? snd q.
Definition oden_ok (o : option dbl) : bool := match o with Some q => den_ok q | None => true end.
Definition srow_ok (r : srow) : bool :=
  match r with
  | SIn s => den_ok (si_spot s) && den_ok (si_cin s) && oden_ok (si_cfee s) && oden_ok (si_f1 s) && oden_ok (si_f2 s) && oden_ok (si_f3 s)
             && notes_cell_ok (si_notes s)
  | SOut s => den_ok (so_spot s) && den_ok (so_nofee s) && den_ok (so_fee s) && oden_ok (so_w s) && oden_ok (so_f1 s) && oden_ok (so_f2 s)
              && notes_cell_ok (so_notes s)
  | SIntra s => oden_ok (sx_spot s) && den_ok (sx_sent s) && den_ok (sx_recv s) && notes_cell_ok (sx_notes s)
  end.
Definition mandatory_of (t : table) : list Z :=
  match t with TabIn => gen_in_mandatory | TabOut => gen_out_mandatory | TabIntra => gen_intra_mandatory end.

Record wf_block (cfg : pcfg) (asset : str) (rowno : Z) (b : block) : Prop := {
  wb_header : wf_header (header_of cfg (b_tab b)) (b_width b);
  wb_mandatory : forall f, In f (mandatory_of (b_tab b)) -> mapped (header_of cfg (b_tab b)) f = true;
  wb_gap : forall r, In r (b_gap b) -> is_blank_row r = true;
  wb_kw : table_of_cell (nth 0 (b_kw b) CEmpty) = Some (b_tab b);
  wb_hdr_first : first_ok (nth 0 (b_hdr b) CEmpty) = true;
  wb_hdr_not_data : constructs cfg (b_tab b) (rowno + Z.of_nat (length (b_gap b)) + 1) (b_hdr b) = false;
  wb_rows_tab : forall rj, In rj (b_rows b) -> srow_tab (fst rj) = b_tab b /\ srow_ok (fst rj) = true;
  wb_rows_first : forall rj, In rj (b_rows b) ->
      first_ok (nth 0 (render_row (header_of cfg (b_tab b)) (b_width b) (srow_cell asset (fst rj)) (snd rj)) CEmpty) = true;
  wb_end : is_table_end (nth 0 (b_end b) CEmpty) = true }.

Fixpoint wf_blocks (cfg : pcfg) (asset : str) (rowno : Z) (blocks : list block) : Prop :=
  match blocks with
  | [] => True
  | b :: t => wf_block cfg asset rowno b /\ wf_blocks cfg asset (rowno + block_len b) t
  end.

Definition tab_code (t : table) : Z := match t with TabIn => 0 | TabOut => 1 | TabIntra => 2 end.
