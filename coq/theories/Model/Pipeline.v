(** compute_tax up to the gain/loss fractions: construct the transactions, sort the
    sets by instant (stable), select the taxable events, run the matcher. *)
From RP2V Require Import Base.Prelude Base.Time Base.Dec Base.Sorting Model.Types Model.Generated Model.Txn
  Model.Matcher Model.MatchSpec.
Open Scope Z_scope.

Record hist := { h_ins : list raw_in; h_outs : list raw_out; h_intras : list raw_intra }.
Record txs := { t_ins : list intx; t_outs : list outtx; t_intras : list intratx }.

Definition in_us (t : intx) : Z := utc_us (i_ts t).
Definition out_us (t : outtx) : Z := utc_us (o_ts t).
Definition intra_us (t : intratx) : Z := utc_us (x_ts t).
Definition t_us (t : txn) : Z := utc_us (t_ts t).

Fixpoint has_dup (l : list Z) : bool :=
  match l with [] => false | x :: t => existsb (Z.eqb x) t || has_dup t end.

(** constructors + TransactionSet.add_entry (duplicate internal ids rejected);
    the three sets come out sorted by instant, ties in insertion order *)
Definition build (h : hist) : result txs :=
  match map_result mk_in (h_ins h) with
  | Err e => Err e
  | Ok ins =>
    match map_result mk_out (h_outs h) with
    | Err e => Err e
    | Ok outs =>
      match map_result mk_intra (h_intras h) with
      | Err e => Err e
      | Ok intras =>
        if has_dup (map i_row ins) || has_dup (map o_row outs) || has_dup (map x_row intras) then Err EDup else
        match ins with
        | [] => Err EValue            (* InputData: the IN set must not be empty *)
        | _ => Ok {| t_ins := sort_by in_us ins; t_outs := sort_by out_us outs; t_intras := sort_by intra_us intras |}
        end
      end
    end
  end.

(** tax_engine._create_unfiltered_taxable_event_set *)
Definition taxable_unsorted (t : txs) : list txn :=
  map TIn (filter in_is_taxable (t_ins t)) ++ map TOut (filter out_is_taxable (t_outs t))
  ++ map TIntra (filter intra_is_taxable (t_intras t)).
Definition taxable_events (t : txs) : result (list txn) :=
  let l := taxable_unsorted t in
  if has_dup (map t_row l) then Err EDup else Ok (sort_by t_us l).

Definition event_of (t : txn) : event :=
  {| e_row := t_row t; e_us := t_us t; e_year := local_year (t_ts t); e_earn := t_is_earning t; e_amt := t_balance_change t |}.

Definition fractions_of (always_repush : bool) (sched : list (Z * meth)) (t : txs) : result (list fraction) :=
  match taxable_events t with
  | Err e => Err e
  | Ok evs => run_matcher always_repush (t_ins t) sched (map event_of evs)
  end.

Definition spec_fractions_of (sched : list (Z * meth)) (t : txs) : result (list fraction) :=
  match taxable_events t with
  | Err e => Err e
  | Ok evs => spec_run (t_ins t) sched (map event_of evs)
  end.

(** * the same pipeline under an explicitly given transfer-fee rule
    [taxable_events] / [fractions_of] above select the transfers with [intra_is_taxable], which is re-translated from
    IntraTransaction.is_taxable on every run.  The variants below take the rule as a parameter, so that statements about a
    particular rule compile whatever the source says today.  [intra_is_taxable_fiat] is the rule before the repair of
    finding F8 (`return self.fiat_fee > ZERO`, RP2Decimal's 13-decimal comparison): a fee whose fiat value is below 5e-14
    was not taxed.  [intra_is_taxable_fee] is the repaired rule (`return self.crypto_fee > ZERO`, exact on the 1e-11 grid). *)
Definition intra_is_taxable_fiat (a : intratx) : bool := dgtb (x_fiat_fee a) dzero.
Definition intra_is_taxable_fee (a : intratx) : bool := x_crypto_fee a >? 0.

Definition taxable_unsorted_by (rule : intratx -> bool) (t : txs) : list txn :=
  map TIn (filter in_is_taxable (t_ins t)) ++ map TOut (filter out_is_taxable (t_outs t))
  ++ map TIntra (filter rule (t_intras t)).
Definition taxable_events_by (rule : intratx -> bool) (t : txs) : result (list txn) :=
  let l := taxable_unsorted_by rule t in
  if has_dup (map t_row l) then Err EDup else Ok (sort_by t_us l).
Definition fractions_of_by (rule : intratx -> bool) (always_repush : bool) (sched : list (Z * meth)) (t : txs)
  : result (list fraction) :=
  match taxable_events_by rule t with
  | Err e => Err e
  | Ok evs => run_matcher always_repush (t_ins t) sched (map event_of evs)
  end.
