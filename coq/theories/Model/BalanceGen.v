(** Interpreter of the update program the translator reads from balance.py on every run
    (Model/GeneratedTie.v, fragment balance: [gen_bal_concat], [gen_bal_cut], [gen_bal_program]).

    The program is executed on the balance state [balst] of Model/Computed.v, statement by statement in source
    order: a store reads the state left by the statements before it (this is what distinguishes the code from a
    rewrite that first reads both balances of a transfer and stores them afterwards: the two differ for a transfer
    from an account to itself).  Proofs/BalanceGenProofs.v proves that the interpreter, run on the program generated
    from the CURRENT source, is the hand-written [bal_step] / [balances] every theorem is about.  Definitions only. *)
From RP2V Require Import Base.Prelude Base.Time Base.Dec Base.Sorting Base.Assoc Model.Types Model.Generated Model.GeneratedTie
  Model.Txn Model.Matcher Model.Pipeline Model.Computed.
Open Scope Z_scope.

Definition bal_kind_of (t : txn) : bal_kind := match t with TIn _ => BK_in | TIntra _ => BK_intra | TOut _ => BK_out end.
Definition bal_kind_eqb (a b : bal_kind) : bool :=
  match a, b with BK_in, BK_in | BK_intra, BK_intra | BK_out, BK_out => true | _, _ => false end.

(** Account(t.exchange, t.holder) / Account(t.from_exchange, t.from_holder) / Account(t.to_exchange, t.to_holder).
    The translator rejects a side the transaction class does not have; (0, 0) is never reached. *)
Definition bal_acct (t : txn) (a : bal_side) : Z * Z :=
  match t, a with
  | TIn x, BA_own => (i_exch x, i_holder x)
  | TOut x, BA_own => (o_exch x, o_holder x)
  | TIntra x, BA_from => (x_from_exch x, x_from_holder x)
  | TIntra x, BA_to => (x_to_exch x, x_to_holder x)
  | _, _ => (0, 0)
  end.

(** crypto-valued attributes (the translator rejects an attribute the class does not have; 0 is never reached) *)
Definition bal_field_val (t : txn) (f : bal_field) : Z :=
  match f, t with
  | BF_crypto_in, TIn x => i_crypto_in x
  | BF_crypto_fee, TIn x => i_crypto_fee x
  | BF_crypto_fee, TOut x => o_crypto_fee x
  | BF_crypto_fee, TIntra x => x_crypto_fee x
  | BF_crypto_sent, TIntra x => x_crypto_sent x
  | BF_crypto_received, TIntra x => x_crypto_received x
  | BF_crypto_out_no_fee, TOut x => o_crypto_out_no_fee x
  | BF_crypto_out_with_fee, TOut x => o_crypto_out_with_fee x
  | BF_crypto_balance_change, _ => t_balance_change t
  | BF_crypto_taxable_amount, _ => t_crypto_taxable t
  | _, _ => 0
  end.

(** D.get(acct, ZERO) *)
Definition bal_get (s : balst) (d : bal_dict) (k : Z) : Z :=
  match d with
  | BD_final => fin_get k (bs_final s)
  | BD_acquired => aget_d 0 k (bs_acq s)
  | BD_sent => aget_d 0 k (bs_sent s)
  | BD_received => aget_d 0 k (bs_recv s)
  end.

(** D[acct] = v *)
Definition bal_set (s : balst) (d : bal_dict) (ex ho v : Z) : balst :=
  let k := acct_key ex ho in
  match d with
  | BD_final => {| bs_acq := bs_acq s; bs_sent := bs_sent s; bs_recv := bs_recv s; bs_final := aset k (ex, ho, v) (bs_final s) |}
  | BD_acquired => {| bs_acq := aset k v (bs_acq s); bs_sent := bs_sent s; bs_recv := bs_recv s; bs_final := bs_final s |}
  | BD_sent => {| bs_acq := bs_acq s; bs_sent := aset k v (bs_sent s); bs_recv := bs_recv s; bs_final := bs_final s |}
  | BD_received => {| bs_acq := bs_acq s; bs_sent := bs_sent s; bs_recv := aset k v (bs_recv s); bs_final := bs_final s |}
  end.

Fixpoint bal_eval (t : txn) (s : balst) (env : nat -> Z) (e : bal_expr) : Z :=
  match e with
  | BE_zero => 0
  | BE_get d a => let '(ex, ho) := bal_acct t a in bal_get s d (acct_key ex ho)
  | BE_field f => bal_field_val t f
  | BE_local n => env n
  | BE_add x y => bal_eval t s env x + bal_eval t s env y
  | BE_sub x y => bal_eval t s env x - bal_eval t s env y
  end.

(** one isinstance block: statements in source order; the negative-balance test raises unless -n *)
Fixpoint bal_run (allow : bool) (t : txn) (s : balst) (env : nat -> Z) (p : list bal_stmt) : result balst :=
  match p with
  | [] => Ok s
  | BS_store d a e :: r => let '(ex, ho) := bal_acct t a in bal_run allow t (bal_set s d ex ho (bal_eval t s env e)) env r
  | BS_let n e :: r => let v := bal_eval t s env e in bal_run allow t s (fun m => if Nat.eqb m n then v else env m) r
  | BS_check e :: r => if goes_negative (bal_eval t s env e) && negb allow then Err ENegBalance else bal_run allow t s env r
  end.

(** the loop body: every block whose class test holds, in source order *)
Fixpoint bal_blocks (allow : bool) (t : txn) (st : result balst) (prog : list (bal_kind * list bal_stmt)) : result balst :=
  match prog with
  | [] => st
  | (k, p) :: r =>
    bal_blocks allow t (match st with
                        | Err e => Err e
                        | Ok s => if bal_kind_eqb k (bal_kind_of t) then bal_run allow t s (fun _ => 0) p else Ok s
                        end) r
  end.

Definition bal_step_gen (allow : bool) (st : result balst) (t : txn) : result balst := bal_blocks allow t st gen_bal_program.

(** the list the loop walks *)
Definition bal_list_of (t : txs) (k : bal_kind) : list txn :=
  match k with BK_in => map TIn (t_ins t) | BK_intra => map TIntra (t_intras t) | BK_out => map TOut (t_outs t) end.
Definition bal_cut_day_of (c : bal_cut_day) (x : txn) : Z :=
  match c with BC_local_day => local_day (t_ts x) | BC_utc_day => utc_us (t_ts x) / US_PER_DAY end.
Definition bal_replay_gen (to_day : Z) (t : txs) : list txn :=
  let all := sort_by t_us (flat_map (bal_list_of t) gen_bal_concat) in
  match gen_bal_cut with
  | None => all
  | Some (c, true) => take_until (bal_cut_day_of c) to_day all                            (* break *)
  | Some (c, false) => filter (fun x => negb (to_day <? bal_cut_day_of c x)) all          (* continue *)
  end.

(** BalanceSet.__init__: replay, then one Balance per entry of the final-balance dictionary (the translator checks
    that the result loop iterates that dictionary, passes account.exchange / account.holder and the .get(account, ZERO)
    of the other three, and that the list is sorted by "<exchange>_<holder>") *)
Definition balances_gen (allow : bool) (to_day : Z) (exs hos : list str) (t : txs) : result (list balance) :=
  match fold_left (bal_step_gen allow) (bal_replay_gen to_day t) (Ok {| bs_acq := []; bs_sent := []; bs_recv := []; bs_final := [] |}) with
  | Err e => Err e
  | Ok s =>
    let bl := map (fun kv => let '(k, (ex, ho, v)) := kv in
                             {| b_exch := ex; b_holder := ho; b_final := v; b_acquired := bal_get s BD_acquired k;
                                b_sent := bal_get s BD_sent k; b_received := bal_get s BD_received k |}) (bs_final s) in
    Ok (sort_leb (fun a b => str_leb (acct_name exs hos (b_exch a) (b_holder a)) (acct_name exs hos (b_exch b) (b_holder b))) bl)
  end.
