(** The specification of lot matching, short enough to read in minutes:
    every disposal greedily takes from the best-ranked lot (by the method in force
    for the disposal's local year) among the lots acquired at or before it that
    still have unconsumed balance.  Income events consume nothing. *)
From RP2V Require Import Base.Prelude Base.Time Base.Dec Model.Types Model.Generated Model.Matcher.
Open Scope Z_scope.

Section Spec.
Variable lots : list intx.
Variable sched : list (Z * meth).

(** ranking of the property text: oldest (FIFO), newest (LIFO), highest price (HIFO),
    lowest price (LOFO); ties by time then sheet row *)
Definition spec_rank (m : meth) (i : nat) : key :=
  let l := lotn lots i in
  match m with
  | Fifo => (utc_us (i_ts l), Z.of_nat i, 0)
  | Lifo => (0, - utc_us (i_ts l), - i_row l)
  | Hifo => (- i_spot l, utc_us (i_ts l), i_row l)
  | Lofo => (i_spot l, utc_us (i_ts l), i_row l)
  end.

(** method in force: the schedule entry with the greatest year <= y *)
Fixpoint meth_for (s : list (Z * meth)) (y : Z) (best : option (Z * meth)) : option (Z * meth) :=
  match s with
  | [] => best
  | (y0, m) :: r =>
    meth_for r y (if y0 <=? y
                  then match best with Some (b, _) => if b <? y0 then Some (y0, m) else best | None => Some (y0, m) end
                  else best)
  end.

(** best available lot at time t given remaining amounts [rem] *)
Fixpoint best_aux (m : meth) (t : Z) (rem : list Z) (i : nat) (n : nat) (best : option nat) : option nat :=
  match n with
  | O => best
  | S n' =>
    let ok := (lot_us lots i <=? t) && (nth i rem 0 >? 0) in
    let best' := if ok then match best with
                            | None => Some i
                            | Some b => if key_ltb (spec_rank m i) (spec_rank m b) then Some i else best
                            end else best in
    best_aux m t rem (S i) n' best'
  end.
Definition best (m : meth) (t : Z) (rem : list Z) : option nat := best_aux m t rem O (length lots) None.

(** consume one disposal greedily *)
Fixpoint consume (fuel : nat) (m : meth) (e : event) (left : Z) (rem : list Z) (out : list fraction)
  : result (list Z * list fraction) :=
  match fuel with
  | O => Err EOutOfFuel
  | S f =>
    if left <=? 0 then Ok (rem, out) else
    match best m (e_us e) rem with
    | None => Err EExhausted
    | Some i =>
      let x := Z.min left (nth i rem 0) in
      consume f m e (left - x) (upd rem i (nth i rem 0 - x)) (mk_frac lots e (Some i) x :: out)
    end
  end.

Fixpoint spec_events (evs : list event) (rem : list Z) (out : list fraction) : result (list fraction) :=
  match evs with
  | [] => Ok (rev out)
  | e :: r =>
    if e_earn e then spec_events r rem (mk_frac lots e None (e_amt e) :: out)
    else match meth_for sched (e_year e) None with
         | None => Err ENoMethod
         | Some (_, m) =>
           match consume (S (length lots)) m e (e_amt e) rem out with
           | Err x => Err x
           | Ok (rem', out') => spec_events r rem' out'
           end
         end
  end.

Definition spec_run (evs : list event) : result (list fraction) := spec_events evs (map i_crypto_in lots) [].
End Spec.
