(** Tax report of the US and IE plugins: [Generator.generate] of
    plugin/report/us/tax_report_us.py and plugin/report/ie/tax_report_ie.py on top of
    [AbstractODSGenerator._initialize_output_file] / [_fill_cell], as the sequence of cell writes it
    performs.  Everything that differs between the two plugins, and everything that is a table or a
    constant in the source, comes from the regenerated [trtables] (Generated.v, fragment tax_report):
    sheet names, [_SHEET_TO_TYPES], HEADER_ROWS / MIN_ROWS, the [append_rows] sizing expression, the
    column layout of a row, the date format, and the sheets of the shipped template.

    Python dictionaries keyed by sheet name are association lists keyed by strings; a missing key is
    [Err EInternal] (KeyError).  Styles are not modelled.  Definitions only. *)
From RP2V Require Import Base.Prelude Base.Time Base.Dec Base.Sorting Base.Assoc Model.Types Model.Generated Model.Txn
  Model.Matcher Model.Pipeline Model.Computed Model.Grid Model.ReportInput.
Open Scope Z_scope.

(** ---------- dictionaries keyed by strings *)
Fixpoint sget {V} (k : str) (m : list (str * V)) : option V :=
  match m with
  | [] => None
  | (k', v) :: t => if str_eqb k k' then Some v else sget k t
  end.
Fixpoint sset {V} (k : str) (v : V) (m : list (str * V)) : list (str * V) :=
  match m with
  | [] => [(k, v)]
  | (k', v') :: t => if str_eqb k k' then (k', v) :: t else (k', v') :: sset k v t
  end.
Definition smem (k : str) (l : list str) : bool := existsb (str_eqb k) l.

(** ---------- text the generator renders itself *)
Fixpoint pad_digits (n : nat) (v : Z) : str :=
  match n with O => [] | S k => pad_digits k (v / 10) ++ [48 + v mod 10] end.

(** f"{x:.8f}" of an amount on the 1e-11 grid: half-even to 8 decimals (decimal context rounding) *)
Definition fmt8 (u : Z) : str :=
  let q := rhe_div u 1000 false in
  let a := Z.abs q in
  (if q <? 0 then [45] else []) ++ str_of_Z (a / 100000000) ++ [46] ++ pad_digits 8 (a mod 100000000).

(** timestamp.strftime("%m/%d/%Y") / ("%Y/%m/%d"): the local calendar date of the timestamp *)
Definition fmt_date (f : trdatefmt) (t : tstamp) : str :=
  let '(y, m, d) := ymd_of_day (local_day t) in
  match f with
  | DF_mdy => pad_digits 2 m ++ [47] ++ pad_digits 2 d ++ [47] ++ str_of_Z y
  | DF_ymd => str_of_Z y ++ [47] ++ pad_digits 2 m ++ [47] ++ pad_digits 2 d
  end.

Definition upper_cp (c : Z) : Z := if (97 <=? c) && (c <=? 122) then c - 32 else c.
Definition s_IN : str := [73; 78].
Definition s_OUT : str := [79; 85; 84].
Definition s_INTRA : str := [73; 78; 84; 82; 65].
Definition s_LONG : str := [76; 79; 78; 71].
Definition s_SHORT : str := [83; 72; 79; 82; 84].
Definition s_Legend : str := [76; 101; 103; 101; 110; 100].
Definition s_nonspec : str := [110; 111; 110; 45; 115; 112; 101; 99; 105; 102; 105; 101; 100].   (* "non-specified" *)
Definition s_uu : str := [95; 95].
Definition s_uuLegend_ : str := [95; 95; 76; 101; 103; 101; 110; 100; 95].                    (* "__Legend_" *)

(** f"{_get_table_type_from_transaction(ev)} / {ev.transaction_type.value.upper()}" *)
Definition txtype_text (e : txn) : str :=
  (match e with TIn _ => s_IN | TOut _ => s_OUT | TIntra _ => s_INTRA end)
  ++ [32; 47; 32] ++ map upper_cp (ttype_value (t_type e)).

(** f"{k}/{n}: {amount:.8f} of {whole:.8f} {asset}" *)
Definition note_text (k n : nat) (amt whole : Z) (asset : str) : str :=
  str_of_Z (Z.of_nat k) ++ [47] ++ str_of_Z (Z.of_nat n) ++ [58; 32] ++ fmt8 amt ++ [32; 111; 102; 32] ++ fmt8 whole ++ [32] ++ asset.

Definition meth_upper (m : meth) : str :=
  match m with
  | Fifo => [70; 73; 70; 79] | Lifo => [76; 73; 70; 79] | Hifo => [72; 73; 70; 79] | Lofo => [76; 79; 70; 79]
  end.

Fixpoint join_comma (l : list str) : str :=
  match l with [] => [] | [x] => x | x :: t => x ++ [44; 32] ++ join_comma t end.

Fixpoint sched_parts (old : Z) (l : list (Z * meth)) : list str :=
  match l with
  | [] => []
  | (y, m) :: t =>
    (if y - old >? 1 then str_of_Z old ++ [45; 62] ++ str_of_Z y ++ [58] ++ meth_upper m
     else str_of_Z y ++ [58] ++ meth_upper m) :: sched_parts y t
  end.

(** legend cell next to "Accounting Method" ([_initialize_output_file]): a one-entry schedule shows its
    method -- as published the entry was looked up under the key 1970 (KeyError otherwise, finding F10),
    the repaired code takes the entry's own value; [by_value] is regenerated from the source *)
Definition legend_method (by_value : bool) (sched : list (Z * meth)) : result str :=
  match sched with
  | [(y, m)] => if by_value || (y =? 1970) then Ok (meth_upper m) else Err EInternal
  | _ => Ok (join_comma (sched_parts 1970 sched))
  end.

(** ---------- one row *)
(** what the row of one gain/loss fraction is made from *)
Record rowsrc := {
  rs_asset : str; rs_gl : gl; rs_period : Z;
  rs_evfrac : nat * nat;                    (* 0-based index and number of fractions of the taxable event *)
  rs_lotfrac : option (nat * nat) }.

Definition onum (o : option dec) : result payload := match o with Some d => Ok (PNum d) | None => Err EInternal end.

Definition field_val (f : trdatefmt) (s : rowsrc) (fld : trfield) : result payload :=
  let g := rs_gl s in
  match fld with
  | TF_amount => Ok (PNum (of_grid (g_amt g)))
  | TF_asset => Ok (PStr (rs_asset s))
  | TF_ev_date => Ok (PStr (fmt_date f (t_ts (g_ev g))))
  | TF_proceeds => onum (g_proceeds g)
  | TF_blank => Ok (PStr [])
  | TF_gain => onum (g_gain g)
  | TF_txtype => Ok (PStr (txtype_text (g_ev g)))
  | TF_ev_note => Ok (PStr (note_text (S (fst (rs_evfrac s))) (snd (rs_evfrac s)) (g_amt g) (t_balance_change (g_ev g)) (rs_asset s)))
  | TF_ev_uid => Ok (PStr [])             (* unique ids are not part of the transaction model (empty in every generated input) *)
  | TF_long_short => Ok (PStr (if g_long (rs_period s) g then s_LONG else s_SHORT))
  | TF_ev_ts => Ok (PTs (t_ts (g_ev g)))
  | TF_lot_date => match g_lot g with Some l => Ok (PStr (fmt_date f (i_ts l))) | None => Err EInternal end
  | TF_cost => onum (g_cost g)
  | TF_lot_note =>
    match g_lot g, rs_lotfrac s with
    | Some l, Some (k, n) => Ok (PStr (note_text (S k) n (g_amt g) (in_crypto_balance_change l) (rs_asset s)))
    | _, _ => Err EInternal
    end
  | TF_lot_uid => Ok (PStr [])
  end.

Fixpoint cells_of (f : trdatefmt) (s : rowsrc) (cols : list (Z * trfield)) : result (list (Z * payload)) :=
  match cols with
  | [] => Ok []
  | (c, fld) :: t =>
    match field_val f s fld, cells_of f s t with
    | Ok v, Ok r => Ok ((c, v) :: r)
    | Err e, _ => Err e
    | _, Err e => Err e
    end
  end.

(** a fraction ready to be placed: the type that routes it and the (column, value) pairs of its row *)
Record item := { it_type : ttype; it_cells : list (Z * payload) }.

Section Report.
Variable T : trtables.

Definition row_cols (s : rowsrc) : list (Z * trfield) :=
  tt_cols_always T ++ (match g_lot (rs_gl s) with Some _ => tt_cols_lot T | None => tt_cols_nolot T end).

Definition mk_item (s : rowsrc) : result item :=
  match cells_of (tt_datefmt T) s (row_cols s) with
  | Ok cs => Ok {| it_type := t_type (g_ev (rs_gl s)); it_cells := cs |}
  | Err e => Err e
  end.

(** ---------- the maps *)
(** [_TYPE_TO_SHEET]: dict comprehension over [_SHEET_TO_TYPES.items()], a later pair overwrites an earlier one *)
Definition type_to_sheet (ty : ttype) : option str :=
  fold_left (fun acc st => if ttype_in ty (snd st) then Some (fst st) else acc) (tt_sheet_to_types T) None.
Definition sheet_types (name : str) : option (list ttype) := sget name (tt_sheet_to_types T).

(** ---------- the output file after [_initialize_output_file] *)
Definition legend_template_name : str := s_uuLegend_ ++ tt_plugin T.
Definition keep_names : list str := map (fun v => s_uu ++ v) (tt_sheet_names T) ++ [legend_template_name].
Definition starts_uu (s : str) : bool := match s with 95 :: 95 :: _ => true | _ => false end.

Definition label_writes (tp : trtemplate) : list cellw := map (fun rc => cw (fst rc) (snd rc) PLabel) (tp_cells tp).

(** kept template sheets lose the leading "__"; other "__" sheets are deleted; anything else stays *)
Definition init_sheet (legend : list cellw) (tp : trtemplate) : option sheetw :=
  if str_eqb (tp_name tp) legend_template_name then
    Some {| sw_name := s_Legend; sw_rows := tp_rows tp; sw_cols := tp_cols tp; sw_writes := label_writes tp ++ legend |}
  else if smem (tp_name tp) keep_names then
    Some {| sw_name := skipn 2 (tp_name tp); sw_rows := tp_rows tp; sw_cols := tp_cols tp; sw_writes := label_writes tp |}
  else if starts_uu (tp_name tp) then None
  else Some {| sw_name := tp_name tp; sw_rows := tp_rows tp; sw_cols := tp_cols tp; sw_writes := label_writes tp |}.

Fixpoint omap_filter {A B} (f : A -> option B) (l : list A) : list B :=
  match l with [] => [] | x :: t => match f x with Some y => y :: omap_filter f t | None => omap_filter f t end end.

Definition day_cell (unset d : Z) : payload := if d =? unset then PStr s_nonspec else PDay d.

Definition legend_writes (i : rinput) : result (list cellw) :=
  match tt_legend_method_row T with
  | None => Err EInternal                          (* RP2RuntimeError: template has no "Accounting Method" cell *)
  | Some r =>
    match legend_method (tt_legend_single_by_value T) (rp_sched i) with
    | Err e => Err e
    | Ok m => Ok [cw r 1 (PStr m); cw (r + 1) 1 (day_cell MIN_DAY (rp_from i)); cw (r + 2) 1 (day_cell MAX_DAY (rp_to i))]
    end
  end.

Definition init_sheets (i : rinput) : result (list sheetw) :=
  if negb (existsb (fun tp => str_eqb (tp_name tp) legend_template_name) (tt_template T)) then Err EInternal   (* KeyError: legend sheet *)
  else match legend_writes i with
       | Err e => Err e
       | Ok lw => Ok (omap_filter (init_sheet lw) (tt_template T))
       end.

Definition init_rows : list (str * Z) := map (fun n => (n, tt_first_row T)) (tt_sheet_names T).

(** ---------- [__generate] for one asset *)
Record tstate := { ts_rows : list (str * Z); ts_sheets : list sheetw }.

Definition is_legend (s : sheetw) : bool := str_eqb (sw_name s) s_Legend.

(** rows appended to one sheet for one asset: one [append_rows] call per type of the sheet *)
Definition appended (count : ttype -> Z) (tys : list ttype) : Z :=
  fold_left (fun acc ty => acc + tt_append_rows T (tt_min_rows T) (count ty)) tys 0.

Fixpoint size_sheets (count : ttype -> Z) (l : list sheetw) : result (list sheetw) :=
  match l with
  | [] => Ok []
  | s :: t =>
    if is_legend s then match size_sheets count t with Ok r => Ok (s :: r) | Err e => Err e end
    else match sheet_types (sw_name s) with
         | None => Err EInternal                   (* KeyError: _SHEET_TO_TYPES[sheet.name] *)
         | Some tys =>
           match size_sheets count t with
           | Ok r => Ok ({| sw_name := sw_name s; sw_rows := sw_rows s + appended count tys; sw_cols := sw_cols s;
                            sw_writes := sw_writes s |} :: r)
           | Err e => Err e
           end
         end
  end.

Definition find_sheet (n : str) (l : list sheetw) : option sheetw := find (fun s => str_eqb (sw_name s) n) l.

(** [output_file.sheets[name]] is the first sheet of that name *)
Fixpoint add_writes (n : str) (ws : list cellw) (l : list sheetw) : list sheetw :=
  match l with
  | [] => []
  | s :: t =>
    if str_eqb (sw_name s) n
    then {| sw_name := sw_name s; sw_rows := sw_rows s; sw_cols := sw_cols s; sw_writes := sw_writes s ++ ws |} :: t
    else s :: add_writes n ws t
  end.

Definition row_writes (r : Z) (it : item) : list cellw := map (fun cv => cw r (fst cv) (snd cv)) (it_cells it).

(** one iteration of the fraction loop *)
Definition place (st : tstate) (it : item) : result tstate :=
  match type_to_sheet (it_type it) with
  | None => Err EInternal                          (* KeyError: _TYPE_TO_SHEET[sheet_type] *)
  | Some n =>
    match find_sheet n (ts_sheets st) with
    | None => Err EInternal                        (* KeyError: output_file.sheets[name] *)
    | Some s =>
      match sget n (ts_rows st) with
      | None => Err EInternal                      (* KeyError: row_indexes[sheet.name] *)
      | Some r =>
        if forallb (in_capacity s) (row_writes r it)
        then Ok {| ts_rows := sset n (r + tt_row_step T) (ts_rows st);
                   ts_sheets := add_writes n (row_writes r it) (ts_sheets st) |}
        else Err EInternal                         (* IndexError: the row lies beyond the rows appended so far *)
      end
    end
  end.

Fixpoint place_all (st : tstate) (l : list item) : result tstate :=
  match l with
  | [] => Ok st
  | it :: t => match place st it with Ok st' => place_all st' t | Err e => Err e end
  end.

(** ---------- from ComputedData to rows *)
(** one row source per fraction of the window, in the set's order; the k-th fraction takes the k-th
    label pair of [cd_evfrac] / [cd_lotfrac] (the three lists have equal lengths by construction in
    [Computed.compute]; no fraction is dropped here even if they had not) *)
Fixpoint sources_from (k : nat) (asset : str) (period : Z) (evf : list (nat * nat)) (lotf : list (option (nat * nat)))
  (gls : list gl) : list rowsrc :=
  match gls with
  | [] => []
  | g :: t => {| rs_asset := asset; rs_gl := g; rs_period := period; rs_evfrac := nth k evf (O, O); rs_lotfrac := nth k lotf None |}
              :: sources_from (S k) asset period evf lotf t
  end.

Definition asset_sources (i : rinput) (ac : rasset * computed) : list rowsrc :=
  sources_from O (ra_name (fst ac)) (rp_period i) (cd_evfrac (snd ac)) (cd_lotfrac (snd ac)) (cd_gls (snd ac)).

Fixpoint mk_items (l : list rowsrc) : result (list item) :=
  match l with
  | [] => Ok []
  | s :: t => match mk_item s, mk_items t with
              | Ok x, Ok r => Ok (x :: r)
              | Err e, _ => Err e
              | _, Err e => Err e
              end
  end.

(** [gain_loss_set.get_transaction_type_count]: fractions up to the to-date, whatever the from-date *)
Definition type_count (i : rinput) (c : computed) (ty : ttype) : Z :=
  Z.of_nat (length (filter (fun g => ttype_eqb (t_type (g_ev g)) ty) (take_until g_day (rp_to i) (cd_all_gls c)))).

Definition gen_asset (i : rinput) (st : tstate) (ac : rasset * computed) : result tstate :=
  match size_sheets (type_count i (snd ac)) (ts_sheets st) with
  | Err e => Err e
  | Ok sized =>
    match mk_items (asset_sources i ac) with
    | Err e => Err e
    | Ok items => place_all {| ts_rows := ts_rows st; ts_sheets := sized |} items
    end
  end.

Fixpoint gen_assets (i : rinput) (st : tstate) (l : list (rasset * computed)) : result tstate :=
  match l with
  | [] => Ok st
  | ac :: t => match gen_asset i st ac with Ok st' => gen_assets i st' t | Err e => Err e end
  end.

(** ---------- removal of the sheets nothing was written to *)
Fixpoint prune (rows : list (str * Z)) (l : list sheetw) : result (list sheetw) :=
  match l with
  | [] => Ok []
  | s :: t =>
    if is_legend s then match prune rows t with Ok r => Ok (s :: r) | Err e => Err e end
    else match sget (sw_name s) rows with
         | None => Err EInternal                   (* KeyError: row_indexes[sheet_name] *)
         | Some r =>
           match prune rows t with
           | Ok rest => Ok (if r =? tt_empty_mark T then rest else s :: rest)
           | Err e => Err e
           end
         end
  end.

Definition tax_report (i : rinput) : result (list sheetw) :=
  match computed_all i (rp_assets i) with
  | Err e => Err e
  | Ok acs =>
    match init_sheets i with
    | Err e => Err e
    | Ok sheets =>
      match gen_assets i {| ts_rows := init_rows; ts_sheets := sheets |} acs with
      | Err e => Err e
      | Ok st =>
        match prune (ts_rows st) (ts_sheets st) with
        | Err e => Err e
        | Ok out => Ok out
        end
      end
    end
  end.

(** ---------- vocabulary of the statements (Properties/C14.v) *)
(** the fraction is routed to sheet [n] *)
Definition routed (n : str) (it : item) : bool :=
  match type_to_sheet (it_type it) with Some m => str_eqb m n | None => false end.
Definition nrouted (n : str) (l : list item) : Z := Z.of_nat (length (filter (routed n) l)).

(** the writes a sheet receives from a list of fractions when its row index starts at [r] *)
Fixpoint spec_writes (n : str) (r : Z) (l : list item) : list cellw :=
  match l with
  | [] => []
  | it :: t => if routed n it then row_writes r it ++ spec_writes n (r + tt_row_step T) t else spec_writes n r t
  end.

(** all fractions of the report, asset after asset *)
Fixpoint all_items (i : rinput) (l : list (rasset * computed)) : result (list item) :=
  match l with
  | [] => Ok []
  | ac :: t => match mk_items (asset_sources i ac), all_items i t with
               | Ok a, Ok b => Ok (a ++ b)
               | Err e, _ => Err e
               | _, Err e => Err e
               end
  end.

(** ---------- finite facts about the generated tables, decided by computation *)
(** types that can be the type of a taxable event: earn-typed acquisitions, every type an out-transaction
    may have, MOVE for transfers *)
Definition taxable_types : list ttype :=
  filter (fun t => (is_earn_type t && in_type_allowed t) || out_type_allowed t || ttype_eqb t MOVE) all_ttypes.
Definition routing_total : bool :=
  forallb (fun t => match type_to_sheet t with Some _ => true | None => false end) taxable_types.

(** the output file before any fraction is written (legend cells aside), and its data sheets *)
Definition init0 : list sheetw := omap_filter (init_sheet []) (tt_template T).
Definition data_sheets0 : list sheetw := filter (fun s => negb (is_legend s)) init0.
Definition data_sheet_names : list str := map sw_name data_sheets0.

Fixpoint str_nodup (l : list str) : bool := match l with [] => true | x :: t => negb (smem x t) && str_nodup t end.
Fixpoint z_nodup (l : list Z) : bool := match l with [] => true | x :: t => negb (existsb (Z.eqb x) t) && z_nodup t end.

(** every target of [_TYPE_TO_SHEET] is a sheet of the output file and a key of [row_indexes] *)
Definition targets_exist : bool :=
  forallb (fun ty => match type_to_sheet ty with
                     | Some n => smem n data_sheet_names && smem n (tt_sheet_names T)
                     | None => true end) all_ttypes.
(** every sheet of the output file (legend aside) is a key of [_SHEET_TO_TYPES] and of [row_indexes] *)
Definition kept_are_keys : bool :=
  forallb (fun n => (match sheet_types n with Some _ => true | None => false end) && smem n (tt_sheet_names T)) data_sheet_names.
(** no type on two sheets, no sheet listed twice *)
Definition map_functional : bool :=
  forallb (fun ty => Nat.leb (length (filter (fun st => ttype_in ty (snd st)) (tt_sheet_to_types T))) 1) all_ttypes
  && str_nodup (map fst (tt_sheet_to_types T)).
Definition names_ok : bool :=
  str_nodup (map sw_name init0) && str_nodup (tt_sheet_names T)
  && existsb (fun tp => str_eqb (tp_name tp) legend_template_name) (tt_template T).
(** the columns of a row are pairwise distinct and inside every data sheet; rows start below the
    template's own cells and inside the template; the row index advances by one; a sheet counts as
    empty exactly when its row index still has the initial value *)
Definition layout_ok : bool :=
  z_nodup (map fst (tt_cols_always T ++ tt_cols_lot T)) && z_nodup (map fst (tt_cols_always T ++ tt_cols_nolot T))
  && forallb (fun s => forallb (fun cf => (0 <=? fst cf) && (fst cf <? sw_cols s)) (tt_cols_always T ++ tt_cols_lot T ++ tt_cols_nolot T)
                       && (sw_cols s <=? 1024)
                       && forallb (fun w => (0 <=? cw_row w) && (cw_row w <? tt_first_row T) && (0 <=? cw_col w) && (cw_col w <? sw_cols s)) (sw_writes s)
                       && (tt_first_row T <=? sw_rows s)) data_sheets0
  && (0 <=? tt_first_row T) && (tt_row_step T =? 1) && (tt_empty_mark T =? tt_first_row T)
  && forallb (fun cf => (0 <=? fst cf) && (fst cf <? 1024)) (tt_cols_always T ++ tt_cols_lot T ++ tt_cols_nolot T)
  && (match tt_legend_method_row T with Some _ => true | None => false end).
Definition tables_ok : bool := targets_exist && kept_are_keys && map_functional && names_ok && layout_ok.
(** [append_rows] adds at least as many rows as there are fractions of the type *)
Definition append_ok : Prop := forall c, 0 <= c -> c <= tt_append_rows T (tt_min_rows T) c.

End Report.

Definition tables_of (c : country) : trtables := match c with IE => tax_tables_ie | _ => tax_tables_us end.
