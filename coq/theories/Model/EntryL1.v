(** Executable entry points of layer L1 (commands 41-49; command 40 lives in Entry.v). *)
From RP2V Require Import Base.Prelude Base.Time Base.Dec Model.Types Model.Generated Model.Txn Model.Codec
  Model.Parser Model.ConfigModel.
Open Scope Z_scope.

Definition enc_str (s : str) : list Z := Z.of_nat (length s) :: s.
Definition enc_cell (c : cell) : list Z :=
  match c with
  | CEmpty => [0]
  | CStr s => 1 :: enc_str s
  | CNum n d => [2; n; d]
  | CBool b => [3; if b then 1 else 0]
  end.
Definition enc_arg (a : arg) : list Z := match a with ANone => [0] | ACell c => 1 :: enc_cell c end.
Definition enc_meta (m : Z * arg * arg) : list Z := let '(r, u, n) := m in r :: enc_arg u ++ enc_arg n.

Definition rd_pcfg_and (k : pcfg -> list Z -> list Z) (a : list Z) : list Z :=
  match rd_list rd_pair a with None => [-1] | Some (hi, s1) =>
  match rd_list rd_pair s1 with None => [-1] | Some (ho, s2) =>
  match rd_list rd_pair s2 with None => [-1] | Some (hx, s3) =>
  match rd_list rd_str s3 with None => [-1] | Some (assets, s4) =>
  match rd_list rd_str s4 with None => [-1] | Some (exs, s5) =>
  match rd_list rd_str s5 with None => [-1] | Some (hos, s6) =>
  match rd_list rd_tsent s6 with None => [-1] | Some (tst, s7) =>
    k {| pc_in := hi; pc_out := ho; pc_intra := hx; pc_assets := assets; pc_exchanges := exs; pc_holders := hos; pc_ts := tst |} s7
  end end end end end end end.

(** cmd 41 -- parse one sheet, with the unique_id / notes arguments of every row:
    [in_header; out_header; intra_header; assets; exchanges; holders; timestamp oracle; asset; counter; rows] *)
Definition entry_parse_full (a : list Z) : list Z :=
  rd_pcfg_and (fun cfg s =>
    match rd_str s with None => [-1] | Some (asset, s1) =>
    match s1 with [] => [-1] | counter :: s2 =>
    match rd_list (rd_list rd_cell) s2 with None => [-1] | Some (rows, _) =>
      match parse_sheet cfg asset counter rows with
      | Err e => [err_code e]
      | Ok p => 0 :: pa_counter p :: enc_list enc_intx (pa_ins p) ++ enc_list enc_outtx (pa_outs p) ++ enc_list enc_intratx (pa_intras p)
                ++ enc_list enc_meta (pa_meta p)
      end
    end end end) a.

(** cmd 42 -- Configuration on tokenised sections: [sections: (name; items: (key; value))] *)
Definition rd_item : rd (str * str) := fun s =>
  match rd_str s with None => None | Some (k, s1) => match rd_str s1 with None => None | Some (v, s2) => Some ((k, v), s2) end end.
Definition rd_section : rd (str * list (str * str)) := fun s =>
  match rd_str s with None => None | Some (n, s1) => match rd_list rd_item s1 with None => None | Some (l, s2) => Some ((n, l), s2) end end.
Definition enc_cstate (s : cstate) : list Z :=
  enc_list (fun fc => [fst fc; snd fc]) (cs_in s) ++ enc_list (fun fc => [fst fc; snd fc]) (cs_out s)
  ++ enc_list (fun fc => [fst fc; snd fc]) (cs_intra s)
  ++ enc_list enc_str (cs_assets s) ++ enc_list enc_str (cs_exchanges s) ++ enc_list enc_str (cs_holders s)
  ++ enc_list (fun ym => fst ym :: enc_str (snd ym)) (cs_methods s).
Definition entry_config (a : list Z) : list Z :=
  match rd_list rd_section a with
  | None => [-1]
  | Some (secs, _) => match validate_config secs with Err e => [err_code e] | Ok s => 0 :: enc_cstate s end
  end.

(** cmd 43 -- option checks: [country; has_method; method; from_day; to_day; has_asset; asset; sections] -> exit :: assets *)
Definition country_of_code1 (c : Z) : country :=
  if c =? 0 then US else if c =? 1 then ES else if c =? 2 then JP else if c =? 3 then IE else GENERIC.
Definition entry_options (a : list Z) : list Z :=
  match a with
  | c :: hm :: s0 =>
    match rd_str s0 with None => [-1] | Some (m, s1) =>
    match s1 with
    | fd :: td :: ha :: s2 =>
      match rd_str s2 with None => [-1] | Some (asset, s3) =>
      match rd_list rd_section s3 with None => [-1] | Some (secs, _) =>
        let o := {| op_method := if hm =? 1 then Some m else None; op_from_day := fd; op_to_day := td;
                    op_asset := if ha =? 1 then Some asset else None |} in
        let '(code, assets) := options_check (country_of_code1 c) o (validate_config secs) in
        code :: enc_list enc_str assets
      end end
    | _ => [-1]
    end end
  | _ => [-1]
  end.

(** cmd 45 -- numeric conversion of one cell: [num; den] -> [units] *)
Definition entry_num11 (a : list Z) : list Z :=
  match a with [n; d] => if 0 <? d then [0; num11 n d] else [5] | _ => [-1] end.
