(** Faithful executable model of RP2's lot matcher:
    tax_engine._create_unfiltered_gain_and_loss_set + AccountingEngine +
    abstract_accounting_method (chronological scan with from/to index; heap of
    (sort key, lot) entries with duplicate entries and conditional re-push;
    shared partial-amount cache; the lot "in flight" carried across events).

    Lots are referred to by their position in the time-sorted lot list.
    [always_repush] = does seek_non_exhausted_acquired_lot of the feature-based
    methods push the selected lot back unconditionally (it is read from the
    source by the translator: Generated.gen_always_repush). *)
From RP2V Require Import Base.Prelude Base.Time Base.Dec Model.Types Model.Generated.
Open Scope Z_scope.

Record event := { e_row : Z; e_us : Z; e_year : Z; e_earn : bool; e_amt : Z }.
Record fraction := { f_ev : Z; f_lot : option Z; f_amt : Z }.

Definition key := (Z * Z * Z)%type.
Definition key_ltb (a b : key) : bool :=
  let '(a1, a2, a3) := a in let '(b1, b2, b3) := b in
  (a1 <? b1) || ((a1 =? b1) && ((a2 <? b2) || ((a2 =? b2) && (a3 <? b3)))).

Record cand := { c_year : Z; c_meth : meth; c_from : nat; c_to : nat; c_heap : list nat }.
Record mstate := { partial : list (option Z); cands : list cand }.

Definition dummy_lot : intx :=
  {| i_row := 0; i_ts := {| utc_us := 0; off_s := 0 |}; i_exch := 0; i_holder := 0; i_type := BUY;
     i_spot := 0; i_crypto_in := 0; i_crypto_fee := 0;
     i_fiat_in_no_fee := dzero; i_fiat_in_with_fee := dzero; i_fiat_fee := dzero |}.
Definition dummy_cand : cand := {| c_year := 0; c_meth := Fifo; c_from := 0; c_to := 0; c_heap := [] |}.

Section Run.
Variable always_repush : bool.
Variable lots : list intx.

Definition lotn (i : nat) : intx := nth i lots dummy_lot.
Definition lot_us (i : nat) : Z := utc_us (i_ts (lotn i)).
Definition hkey (m : meth) (i : nat) : key := meth_sort_key m (lotn i).

(** heapq: a multiset of entries; heappop returns a minimal one.  Equal keys only
    occur for copies of the same lot (the key ends with the row), so which copy is
    returned is unobservable. *)
Fixpoint min_idx (m : meth) (h : list nat) (best : nat) : nat :=
  match h with
  | [] => best
  | i :: t => if key_ltb (hkey m i) (hkey m best) then min_idx m t i else min_idx m t best
  end.
Fixpoint remove1 (x : nat) (h : list nat) : list nat :=
  match h with [] => [] | y :: t => if Nat.eqb x y then t else y :: remove1 x t end.
Definition pop_min (m : meth) (h : list nat) : option (nat * list nat) :=
  match h with [] => None | i :: t => let b := min_idx m t i in Some (b, remove1 b h) end.

(** amount still available according to the partial-amount cache *)
Definition avail (p : list (option Z)) (i : nat) : option Z :=
  match nth i p None with
  | None => Some (i_crypto_in (lotn i))
  | Some a => if a >? 0 then Some a else None
  end.

(** chronological scan, older to newer: from c_from up to c_to; every exhausted lot
    met bumps from_index by one *)
Fixpoint seek_up (fuel : nat) (p : list (option Z)) (i to_ : nat) (bumps : nat) : option (nat * Z) * nat :=
  match fuel with
  | O => (None, bumps)
  | S f =>
    if Nat.ltb to_ i then (None, bumps)
    else match avail p i with
         | Some a => (Some (i, a), bumps)
         | None => seek_up f p (S i) to_ (S bumps)
         end
  end.
(** newer to older: from c_to down to c_from (no shipped plugin uses it) *)
Fixpoint seek_down (fuel : nat) (p : list (option Z)) (i from_ : nat) (bumps : nat) : option (nat * Z) * nat :=
  match fuel with
  | O => (None, bumps)
  | S f =>
    if Nat.ltb i from_ then (None, bumps)
    else match avail p i with
         | Some a => (Some (i, a), bumps)
         | None => match i with O => (None, S bumps) | S j => seek_down f p j from_ (S bumps) end
         end
  end.

(** feature-based: pop until a non-exhausted lot is found *)
Fixpoint seek_feature (fuel : nat) (m : meth) (p : list (option Z)) (h : list nat) : option (nat * Z) * list nat :=
  match fuel with
  | O => (None, h)
  | S f =>
    match pop_min m h with
    | None => (None, h)
    | Some (i, h') =>
      match avail p i with
      | Some a => (Some (i, a), h')
      | None => seek_feature f m p h'
      end
    end
  end.

(** FeatureBasedAcquiredLotCandidates.set_to_index pushes range(old_to, new_to + 1) on every call *)
Definition push_range (h : list nat) (old_to new_to : nat) : list nat :=
  h ++ seq old_to (S new_to - old_to).

(** AVL lookup: position of the lot with the greatest (instant, row) among instants <= t *)
Fixpoint to_index_aux (t : Z) (l : list intx) (i : nat) (best : option (nat * Z * Z)) : option (nat * Z * Z) :=
  match l with
  | [] => best
  | x :: r =>
    let xt := utc_us (i_ts x) in
    let best' :=
      if xt <=? t then
        match best with
        | None => Some (i, xt, i_row x)
        | Some (_, bt, br) => if (bt <? xt) || ((bt =? xt) && (br <? i_row x)) then Some (i, xt, i_row x) else best
        end
      else best in
    to_index_aux t r (S i) best'
  end.
Definition to_index (t : Z) : option nat :=
  match to_index_aux t lots O None with Some (i, _, _) => Some i | None => None end.

(** greatest schedule year <= y (AVL find_max_value_less_than) *)
Fixpoint find_cand (cs : list cand) (y : Z) (k : nat) (best : option (nat * Z)) : option (nat * Z) :=
  match cs with
  | [] => best
  | c :: r =>
    let best' := if c_year c <=? y
                 then match best with
                      | Some (_, by_) => if by_ <? c_year c then Some (k, c_year c) else best
                      | None => Some (k, c_year c)
                      end
                 else best in
    find_cand r y (S k) best'
  end.

(** AccountingEngine.get_acquired_lot_for_taxable_event *)
Definition lot_for_event (s : mstate) (e : event) (ev_amt lot_amt : Z) : result (mstate * nat * Z * Z) :=
  let new_ev_amt := ev_amt - lot_amt in
  match to_index (e_us e) with
  | None => Err EExhausted
  | Some ti =>
    match find_cand (cands s) (e_year e) O None with
    | None => Err ENoMethod
    | Some (k, _) =>
      let c := nth k (cands s) dummy_cand in
      let m := c_meth c in
      match meth_kind m with
      | Chrono older_first =>
        let '(r, bumps) := if older_first
                           then seek_up (S (length lots)) (partial s) (c_from c) ti O
                           else seek_down (S (length lots)) (partial s) ti (c_from c) O in
        let c' := {| c_year := c_year c; c_meth := m; c_from := (c_from c + bumps)%nat; c_to := ti; c_heap := [] |} in
        match r with
        | None => Err EExhausted
        | Some (i, a) => Ok ({| partial := upd (partial s) i (Some 0); cands := upd (cands s) k c' |}, i, new_ev_amt, a)
        end
      | Feature =>
        let h0 := push_range (c_heap c) (c_to c) ti in
        let '(r, h1) := seek_feature (S (length h0)) m (partial s) h0 in
        match r with
        | None => Err EExhausted
        | Some (i, a) =>
          let h2 := if always_repush || (a >? new_ev_amt) then i :: h1 else h1 in
          let c' := {| c_year := c_year c; c_meth := m; c_from := c_from c; c_to := ti; c_heap := h2 |} in
          Ok ({| partial := upd (partial s) i (Some 0); cands := upd (cands s) k c' |}, i, new_ev_amt, a)
        end
      end
    end
  end.

Inductive nxt := Done | Next (s : mstate) (evs : list event) (e : event) (l : option nat) (ea la : Z).

(** AccountingEngine.get_next_taxable_event_and_amount *)
Definition next_event (s : mstate) (evs : list event) (cur : option event) (cl : option nat) (ev_amt lot_amt : Z)
  : result nxt :=
  let nla := match cl with Some _ => lot_amt - ev_amt | None => 0 end in
  match evs with
  | [] => Ok Done
  | ne :: rest =>
    let nea := e_amt ne in
    match cur with
    | Some ce =>
      if e_us ce <? e_us ne then
        let s1 := match cl with
                  | Some l => {| partial := upd (partial s) l (Some nla); cands := cands s |}
                  | None => s
                  end in
        match lot_for_event s1 ne nea nla with
        | Err x => Err x
        | Ok (s2, i, _, a) => Ok (Next s2 rest ne (Some i) nea a)
        end
      else Ok (Next s rest ne cl nea nla)
    | None => Ok (Next s rest ne cl nea nla)
    end
  end.

(** InTransaction equality is equality of internal ids (rows) *)
Definition opt_lot_eq (a b : option nat) : bool :=
  match a, b with
  | None, None => true
  | Some x, Some y => i_row (lotn x) =? i_row (lotn y)
  | _, _ => false
  end.

(** tax_engine._get_next_taxable_event_and_acquired_lot *)
Definition next_event_and_lot (s : mstate) (evs : list event) (cur : option event) (cl : option nat) (ev_amt lot_amt : Z)
  : result nxt :=
  match next_event s evs cur cl ev_amt lot_amt with
  | Err x => Err x
  | Ok Done => Ok Done
  | Ok (Next s1 rest ne nl nea nla) =>
    if opt_lot_eq cl nl then
      match lot_for_event s1 ne nea nla with
      | Err x => Err x
      | Ok (s2, i, _, a) => Ok (Next s2 rest ne (Some i) nea a)
      end
    else Ok (Next s1 rest ne nl nea nla)
  end.

Definition mk_frac (e : event) (l : option nat) (x : Z) : fraction :=
  {| f_ev := e_row e; f_lot := option_map (fun i => i_row (lotn i)) l; f_amt := x |}.

(** the while-loop of _create_unfiltered_gain_and_loss_set; type checks on the loop
    variables are errors of kind EValue (amounts must be >= 0) *)
Fixpoint loop (fuel : nat) (s : mstate) (evs : list event) (e : event) (l : option nat) (ea la : Z) (out : list fraction)
  : result (list fraction) :=
  match fuel with
  | O => Err EOutOfFuel
  | S f =>
    match l with
    | None => Err ELotNone
    | Some li =>
      if (ea <? 0) || (la <? 0) then Err EValue else
      let continue_ r out' :=
        match r with
        | Err x => Err x
        | Ok Done => Ok (rev out')
        | Ok (Next s' evs' e' l' ea' la') => loop f s' evs' e' l' ea' la' out'
        end in
      if e_earn e then
        if (ea <=? 0) then Err EValue else
        continue_ (next_event s evs (Some e) l 0 la) (mk_frac e None ea :: out)
      else if ea =? la then
        if (ea <=? 0) then Err EValue else
        continue_ (next_event_and_lot s evs (Some e) l ea la) (mk_frac e (Some li) ea :: out)
      else if ea <? la then
        if (ea <=? 0) then Err EValue else
        continue_ (next_event s evs (Some e) l ea la) (mk_frac e (Some li) ea :: out)
      else
        if (la <=? 0) then Err EValue else
        match lot_for_event s e ea la with
        | Err x => Err x
        | Ok (s', i, ea', la') => loop f s' evs e (Some i) ea' la' (mk_frac e (Some li) la :: out)
        end
    end
  end.

Definition init_state (sched : list (Z * meth)) : mstate :=
  {| partial := map (fun _ => None) lots;
     cands := map (fun ym => {| c_year := fst ym; c_meth := snd ym; c_from := 0; c_to := 0; c_heap := [] |}) sched |}.

Definition run_fuel (evs : list event) : nat := (2 * (length evs + length lots) + 2)%nat.

Definition run_matcher (sched : list (Z * meth)) (evs : list event) : result (list fraction) :=
  match lots with
  | [] => Err EInternal          (* "AVL tree has no root node"; unreachable: the IN set is never empty *)
  | _ =>
    match next_event_and_lot (init_state sched) evs None None 0 0 with
    | Err x => Err x
    | Ok Done => Ok []
    | Ok (Next s evs' e l ea la) => loop (run_fuel evs) s evs' e l ea la []
    end
  end.
End Run.
