(** Executable entry points of the open-positions report model (driver commands 70-79). *)
From RP2V Require Import Base.Prelude Base.Time Base.Dec Base.Assoc Model.Types Model.Generated Model.Codec Model.Computed
  Model.Grid Model.ReportInput Model.OpenPos.
Open Scope Z_scope.

(** cmd 70 -- [lang; rinput...] -> 0 :: enc_report (Asset, Asset - Exchange, Input) | [error code] *)
Definition entry_open_positions (a : list Z) : list Z :=
  match a with
  | lang :: s =>
    match rd_rinput s with
    | None => [-1]
    | Some (Err e, _) => [err_code e]
    | Some (Ok i, _) =>
      match open_positions lang i with
      | Ok ss => 0 :: enc_report ss
      | Err e => [err_code e]
      end
    end
  | [] => [-1]
  end.

(** cmd 71 -- first pass only: [rinput...] -> 0 :: total :: listed assets (index, cost basis) :: holders ::
    per asset the holder balances *)
Definition entry_open_positions_first (a : list Z) : list Z :=
  match rd_rinput a with
  | None => [-1]
  | Some (Err e, _) => [err_code e]
  | Some (Ok i, _) =>
    match computed_all i (rp_assets i) with
    | Err e => [err_code e]
    | Ok acs =>
      match first_pass (map snd acs) with
      | Err e => [err_code e]
      | Ok s => 0 :: enc_dec (fp_total s)
                ++ enc_list (fun kv => fst kv :: enc_dec (snd kv)) (fp_costs s)
                ++ enc_list (fun h => [h]) (fp_holders s)
                ++ enc_list (fun kv => fst kv :: enc_list (fun hb => [fst hb; snd hb]) (snd kv)) (fp_hbal s)
      end
    end
  end.
