(** configuration.Configuration.__init__ on the already-tokenised INI file (configparser is
    library code: the harness tokenises with the same library and passes sections in file order,
    each with its (key, value) items; keys arrive lower-cased, values stripped), and the
    option checks of rp2_main._rp2_main_internal / _setup_argument_parser that can reject a run
    before any sheet is read. *)
From RP2V Require Import Base.Prelude Base.Time Base.Dec Base.Sorting Model.Types Model.Generated Model.Txn Model.Parser.
Open Scope Z_scope.

(** str.strip(): ASCII white space (and the two Latin-1 ones); other Unicode spaces are not modelled *)
Definition is_space (c : Z) : bool :=
  (c =? 32) || ((9 <=? c) && (c <=? 13)) || ((28 <=? c) && (c <=? 31)) || (c =? 133) || (c =? 160).
Fixpoint lstrip (s : str) : str :=
  match s with c :: t => if is_space c then lstrip t else s | [] => [] end.
Definition strip (s : str) : str := rev (lstrip (rev (lstrip s))).

(** int(s) for ASCII input: optional sign, decimal digits, single underscores between digits *)
Fixpoint digits_val (s : str) (acc : Z) (prev_digit : bool) : option Z :=
  match s with
  | [] => if prev_digit then Some acc else None
  | c :: t =>
    if (48 <=? c) && (c <=? 57) then digits_val t (acc * 10 + (c - 48)) true
    else if (c =? 95) && prev_digit then digits_val t acc false
    else None
  end.
Definition parse_int (s : str) : option Z :=
  match strip s with
  | 45 :: t => option_map Z.opp (digits_val t 0 false)
  | 43 :: t => digits_val t 0 false
  | t => digits_val t 0 false
  end.

Fixpoint assoc_str (k : str) (l : list (str * str)) : option str :=
  match l with [] => None | (k', v) :: t => if str_eqb k k' then Some v else assoc_str k t end.

(** s.split(",") *)
Fixpoint split_on (sep : Z) (s : str) (cur : str) : list str :=
  match s with
  | [] => [rev cur]
  | c :: t => if c =? sep then rev cur :: split_on sep t [] else split_on sep t (c :: cur)
  end.
Definition str_mem (s : str) (l : list str) : bool := existsb (str_eqb s) l.
Fixpoint has_dup_str (l : list str) : bool :=
  match l with [] => false | x :: t => str_mem x t || has_dup_str t end.

(** _validate_string_set *)
Definition string_set (field : str) (items : list (str * str)) : result (list str) :=
  match assoc_str field items with
  | None => Err EValue
  | Some v =>
    match strip v with
    | [] => Err EValue
    | _ =>
      let vals := map strip (split_on 44 v []) in
      if existsb (fun x => match x with [] => true | _ => false end) vals then Err EValue else
      if has_dup_str vals then Err EValue else Ok vals
    end
  end.

Definition fields_of (t : table) : list str :=
  match t with TabIn => gen_in_fields | TabOut => gen_out_fields | TabIntra => gen_intra_fields end.

(** _validate_header_section: integer, non-negative, unused column, known field -- in this order *)
Fixpoint validate_header_go (t : table) (items : list (str * str)) (acc : list (Z * Z)) : result (list (Z * Z)) :=
  match items with
  | [] => Ok acc
  | (k, v) :: rest =>
    match parse_int v with
    | None => Err EValue
    | Some c =>
      if c <? 0 then Err EValue else
      if existsb (fun fc => snd fc =? c) acc then Err EValue else
      match str_index k (fields_of t) 0 with
      | None => Err EValue
      | Some f => validate_header_go t rest (acc ++ [(f, c)])
      end
    end
  end.
Definition validate_header (t : table) (items : list (str * str)) : result (list (Z * Z)) :=
  match items with [] => Err EValue | _ => validate_header_go t items [] end.

Definition MIN_YEAR : Z := 1970.
Fixpoint validate_methods_go (items : list (str * str)) (acc : list (Z * str)) : result (list (Z * str)) :=
  match items with
  | [] => Ok acc
  | (k, v) :: rest =>
    match parse_int k with
    | None => Err EValue
    | Some y => if y <? MIN_YEAR then Err EValue else validate_methods_go rest (acc ++ [(y, strip v)])
    end
  end.
Definition validate_methods (items : list (str * str)) : result (list (Z * str)) :=
  match items with [] => Err EValue | _ => validate_methods_go items [] end.

Record cstate := {
  cs_assets : list str; cs_exchanges : list str; cs_holders : list str;
  cs_in : list (Z * Z); cs_out : list (Z * Z); cs_intra : list (Z * Z);
  cs_methods : list (Z * str) }.

Fixpoint take_word (s : str) : str :=
  match s with [] => [] | c :: t => if c =? 32 then [] else c :: take_word t end.
Definition norm_section (name : str) : str := strip (take_word (strip name)).

Definition nonempty {A} (l : list A) : bool := match l with [] => false | _ => true end.

Definition section_step (s : cstate) (sec : str * list (str * str)) : result cstate :=
  let '(name, items) := sec in
  let n := norm_section name in
  if str_eqb n gen_kw_general then
    if nonempty (cs_assets s) || nonempty (cs_exchanges s) || nonempty (cs_holders s) then Err EValue else
    do a <- string_set gen_kw_assets items;
    do e <- string_set gen_kw_exchanges items;
    do h <- string_set gen_kw_holders items;
    Ok {| cs_assets := a; cs_exchanges := e; cs_holders := h; cs_in := cs_in s; cs_out := cs_out s; cs_intra := cs_intra s;
          cs_methods := cs_methods s |}
  else if str_eqb n gen_in_section then
    if nonempty (cs_in s) then Err EValue else
    do m <- validate_header TabIn items;
    Ok {| cs_assets := cs_assets s; cs_exchanges := cs_exchanges s; cs_holders := cs_holders s; cs_in := m; cs_out := cs_out s;
          cs_intra := cs_intra s; cs_methods := cs_methods s |}
  else if str_eqb n gen_out_section then
    if nonempty (cs_out s) then Err EValue else
    do m <- validate_header TabOut items;
    Ok {| cs_assets := cs_assets s; cs_exchanges := cs_exchanges s; cs_holders := cs_holders s; cs_in := cs_in s; cs_out := m;
          cs_intra := cs_intra s; cs_methods := cs_methods s |}
  else if str_eqb n gen_intra_section then
    if nonempty (cs_intra s) then Err EValue else
    do m <- validate_header TabIntra items;
    Ok {| cs_assets := cs_assets s; cs_exchanges := cs_exchanges s; cs_holders := cs_holders s; cs_in := cs_in s; cs_out := cs_out s;
          cs_intra := m; cs_methods := cs_methods s |}
  else if str_eqb n gen_kw_accounting_methods then
    if nonempty (cs_methods s) then Err EValue else
    do m <- validate_methods items;
    Ok {| cs_assets := cs_assets s; cs_exchanges := cs_exchanges s; cs_holders := cs_holders s; cs_in := cs_in s; cs_out := cs_out s;
          cs_intra := cs_intra s; cs_methods := m |}
  else Err EValue.

Fixpoint sections_go (s : cstate) (l : list (str * list (str * str))) : result cstate :=
  match l with
  | [] => Ok s
  | x :: t => match section_step s x with Err e => Err e | Ok s' => sections_go s' t end
  end.

Definition validate_config (l : list (str * list (str * str))) : result cstate :=
  match sections_go {| cs_assets := []; cs_exchanges := []; cs_holders := []; cs_in := []; cs_out := []; cs_intra := [];
                        cs_methods := [] |} l with
  | Err e => Err e
  | Ok s =>
    if nonempty (cs_assets s) && nonempty (cs_exchanges s) && nonempty (cs_holders s)
       && nonempty (cs_in s) && nonempty (cs_out s) && nonempty (cs_intra s)
    then Ok s else Err EValue
  end.

(** ---------- command-line options (rp2_main) *)
Definition meth_of_name (s : str) : option meth :=
  if str_eqb s [102; 105; 102; 111] then Some Fifo else
  if str_eqb s [108; 105; 102; 111] then Some Lifo else
  if str_eqb s [104; 105; 102; 111] then Some Hifo else
  if str_eqb s [108; 111; 102; 111] then Some Lofo else None.
Definition meth_in (m : meth) (l : list meth) : bool := existsb (fun x => meth_code x =? meth_code m) l.

Record options := {
  op_method : option str;            (* -m *)
  op_from_day : Z; op_to_day : Z;    (* -f / -t as day numbers (defaults: MIN_DATE / MAX_DATE) *)
  op_asset : option str }.           (* -a *)

(** exit status decided before / while reading the inputs: 2 = argparse error, 1 = logged error, 0 = goes on to
    parse the sheets of [assets_to_process] *)
Definition options_check (c : country) (o : options) (cfg : result cstate) : Z * list str :=
  match (match op_method o with
         | None => Ok tt
         | Some m => match meth_of_name m with
                     | Some mm => if meth_in mm (country_methods c) then Ok tt else Err EValue
                     | None => Err EValue
                     end
         end) with
  | Err _ => (2, [])                                      (* argparse: invalid choice *)
  | Ok _ =>
    if op_to_day o <? op_from_day o then (1, []) else     (* Configuration: from_date > to_date *)
    match cfg with
    | Err _ => (1, [])
    | Ok s =>
      if (match op_method o with Some _ => true | None => false end) && nonempty (cs_methods s) then (1, []) else
      if existsb (fun ym => match meth_of_name (snd ym) with Some _ => false | None => true end) (cs_methods s) then (1, []) else
      match op_asset o with
      | Some a => if str_mem a (cs_assets s) then (0, [a]) else (1, [])
      | None => (0, cs_assets s)
      end
    end
  end.

(** ---------- the front end of a run: rp2_main parses (and computes) every asset before the first report generator
    starts, inside one try/except that turns any exception into exit status 1.  [back] stands for everything after
    parsing (tax computation and report generation, other layers); [workbook] maps a sheet name to its cell grid. *)
Definition pcfg_of (s : cstate) (ts : list (str * ts_res)) : pcfg :=
  {| pc_in := cs_in s; pc_out := cs_out s; pc_intra := cs_intra s; pc_assets := cs_assets s; pc_exchanges := cs_exchanges s;
     pc_holders := cs_holders s; pc_ts := ts |}.

Fixpoint parse_all (cfg : pcfg) (assets : list str) (workbook : str -> option (list (list cell))) (counter : Z)
  : result (list (str * parsed)) :=
  match assets with
  | [] => Ok []
  | a :: rest =>
    match workbook a with
    | None => Err EValue                                   (* sheet does not exist *)
    | Some rows =>
      match parse_sheet cfg a counter rows with
      | Err e => Err e
      | Ok p => match parse_all cfg rest workbook (pa_counter p) with Err e => Err e | Ok ps => Ok ((a, p) :: ps) end
      end
    end
  end.

Definition front_end (c : country) (o : options) (secs : list (str * list (str * str))) (ts : list (str * ts_res))
  (workbook : str -> option (list (list cell))) (back : list (str * parsed) -> Z * list str) : Z * list str :=
  let cfg := validate_config secs in
  let '(code, assets) := options_check c o cfg in
  if negb (code =? 0) then (code, []) else
  match cfg with
  | Err _ => (1, [])
  | Ok s => match parse_all (pcfg_of s ts) assets workbook 0 with
            | Err _ => (1, [])
            | Ok ps => back ps
            end
  end.
