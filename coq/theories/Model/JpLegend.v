(** The Legend sheet of tax_report_jp.ods.  The JP generator obtains its output file from the same
    [AbstractODSGenerator._initialize_output_file] as the other report generators (legend_data = []): the template's
    __Legend_tax_report_jp sheet is kept and renamed to the translated "Legend", and next to the row whose first cell
    is the translated "Accounting Method" three cells are written: the method string of the schedule, the from date
    and the to date (or "non-specified").  The template's own cells are [PLabel] (their texts are not modelled; the
    three cells written DO overwrite template texts in the shipped JP templates).  Template geometry, the method row
    and the translated sheet name come from Generated.v (fragment jp_report) per generation language; the method
    string is [TaxReport.legend_method] -- one model of the shared code -- with the structural fact
    [gen_ods_single_method_by_value] read from the source (finding F10).

    [jp_report_full] = the whole file: Legend first, then what [JpReport.jp_report] describes.  Definitions only. *)
From RP2V Require Import Base.Prelude Base.Time Base.Dec Base.Sorting Base.Assoc Model.Types Model.Generated Model.Txn
  Model.Pipeline Model.Computed Model.Grid Model.ReportInput Model.TaxReport Model.JpReport.
Open Scope Z_scope.

Definition jp_legend_cells3 (r : Z) (m : str) (i : rinput) : list cellw :=
  [cw r 1 (PStr m); cw (r + 1) 1 (day_cell MIN_DAY (rp_from i)); cw (r + 2) 1 (day_cell MAX_DAY (rp_to i))].

Definition jp_legend_writes (lang : Z) (i : rinput) : result (list cellw) :=
  match gen_jp_legend_method_row lang with
  | None => Err EInternal                          (* RP2RuntimeError: template has no "Accounting Method" cell *)
  | Some r =>
    match legend_method gen_ods_single_method_by_value (rp_sched i) with
    | Err e => Err e
    | Ok m => Ok (jp_legend_cells3 r m i)
    end
  end.

Definition jp_legend_labels (lang : Z) : list cellw := map (fun rc => cw (fst rc) (snd rc) PLabel) (gen_jp_legend_cells lang).

Definition jp_legend (lang : Z) (i : rinput) : result sheetw :=
  match jp_legend_writes lang i with
  | Err e => Err e
  | Ok lw => Ok {| sw_name := gen_jp_legend_name lang; sw_rows := gen_jp_legend_rows lang; sw_cols := gen_jp_legend_cols lang;
                   sw_writes := jp_legend_labels lang ++ lw |}
  end.

(** Generator.generate: the -f / -t restriction, then [_initialize_output_file] (the legend), then the assets *)
Definition jp_report_full (lang : Z) (yg ys pe : bool) (i : rinput) : result (list sheetw) :=
  match computed_all i (rp_assets i) with
  | Err e => Err e
  | Ok _ =>
    if negb (rp_from i =? MIN_DAY) && negb (rp_to i =? MAX_DAY) then Err EInternal     (* RP2RuntimeError: F7 *)
    else match jp_legend lang i with
         | Err e => Err e
         | Ok lg => match jp_report lang yg ys pe i with Ok r => Ok (lg :: r) | Err e => Err e end
         end
  end.
