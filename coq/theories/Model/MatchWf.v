(** Well-formedness of matcher inputs.  Every clause is established by the input
    layer for parser-produced histories (Pipeline / Parser lemmas), except the two
    marked (F13) and (cover), which are genuine restrictions discussed in DESIGN.md. *)
From RP2V Require Import Base.Prelude Base.Time Base.Dec Model.Types Model.Generated Model.Matcher Model.MatchSpec.
Open Scope Z_scope.

Section Wf.
Variable lots : list intx.
Variable sched : list (Z * meth).
Variable evs : list event.

(** lots are sorted by instant; among equal instants rows increase with position
    (sheet order); rows are pairwise distinct; amounts positive *)
Definition lots_sorted : Prop :=
  forall i j, (i < j < length lots)%nat ->
    lot_us lots i < lot_us lots j \/ (lot_us lots i = lot_us lots j /\ i_row (lotn lots i) < i_row (lotn lots j)).
Definition lots_distinct_rows : Prop := NoDup (map i_row lots).
Definition lots_positive : Prop := forall i, (i < length lots)%nat -> 0 < i_crypto_in (lotn lots i).
Definition lots_nonempty : Prop := lots <> [].

(** events sorted by instant; amounts positive *)
Definition evs_sorted : Prop :=
  forall i j d, (i < j < length evs)%nat -> e_us (nth i evs d) <= e_us (nth j evs d).
Definition evs_positive : Prop := forall e, In e evs -> 0 < e_amt e.
Definition evs_distinct_rows : Prop := NoDup (map e_row evs).
(** among events of one instant the income events come first (the taxable-event set is built
    from in ++ out ++ intra and sorted stably) *)
Definition earn_first : Prop :=
  forall i j d, (i < j < length evs)%nat -> e_us (nth i evs d) = e_us (nth j evs d) ->
    e_earn (nth j evs d) = true -> e_earn (nth i evs d) = true.
(** every income event is itself a lot (same row, same instant, same amount) *)
Definition earn_is_lot : Prop :=
  forall e, In e evs -> e_earn e = true ->
    exists i, (i < length lots)%nat /\ i_row (lotn lots i) = e_row e /\ lot_us lots i = e_us e /\ i_crypto_in (lotn lots i) = e_amt e.
(** (F13) events of one instant fall in the same local year *)
Definition same_instant_same_year : Prop :=
  forall e e', In e evs -> In e' evs -> e_us e = e_us e' -> e_year e = e_year e'.
(** (cover) the schedule has an entry for the year of every event; schedule years are distinct *)
Definition sched_covers : Prop :=
  forall e, In e evs -> exists y m, In (y, m) sched /\ y <= e_year e.
Definition sched_distinct : Prop := NoDup (map fst sched).

Definition wf : Prop :=
  lots_sorted /\ lots_distinct_rows /\ lots_positive /\ lots_nonempty /\
  evs_sorted /\ evs_positive /\ evs_distinct_rows /\ earn_first /\ earn_is_lot /\
  same_instant_same_year /\ sched_covers /\ sched_distinct.
End Wf.
